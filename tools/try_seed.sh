#!/bin/bash
# usage: tools/try_seed.sh <patch.diff> <check id> [tier]   -- run a check against /repo HEAD + patch in a scratch worktree
# (scratch worktree lives under /tmp and is removed afterwards; /repo itself is never touched)
patch="$(realpath "$1")"; id="$2"; tier="${3:-quick}"
wt=$(mktemp -d /tmp/mutwt.XXXXXX)
git -C /repo worktree add --detach "$wt" HEAD >/dev/null 2>&1 || { echo "worktree failed"; exit 3; }
if ! git -C "$wt" apply "$patch" 2>/dev/null; then
  if ! git -C "$wt" apply --3way "$patch" >/dev/null 2>&1; then echo "PATCH-DOES-NOT-APPLY $patch"; git -C /repo worktree remove --force "$wt"; exit 4; fi
fi
out=$(VERIF_REPO="$wt" VERIF_EVIDENCE_DIR="$wt/.evidence" /verif/check "$id" --tier "$tier" 2>&1 | grep -v conda)
rc=$?
nviol=$(echo "$out" | grep -c '^VIOLATION')
echo "$out" | grep -E '^VIOLATION|^   ' | head -6
echo "$out" | tail -1
echo "SEED $(basename $(dirname $patch)) of $(basename $(dirname $(dirname $patch))) vs $id: violations_lines=$nviol"
git -C /repo worktree remove --force "$wt"
