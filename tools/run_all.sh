#!/bin/bash
# tools/run_all.sh [quick|thorough] [ids...]  -- run the checks one after another, print one summary line each
tier=${1:-quick}; shift
ids=${@:-C01 C02 C03 C04 C05 C06 C07 C08 C09 C10 C11 C12 C13 C14 C15 C16 C17 C18 C19 C20}
cd /verif
rc=0
for id in $ids; do
  out=$(./check $id --tier $tier 2>&1); r=$?
  echo "$out" | grep -E "^VIOLATION|tier=$tier" | head -5 | cut -c1-220
  echo "  exit=$r $id"
  [ $r -ne 0 ] && rc=1
done
exit $rc
