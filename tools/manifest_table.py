HOOK_COMMITS = []
NOT_BUILT = {}
CHECKS = {
 'C01': dict(engine='E1-history-bfs', design_ref='5/C01',
   technique='explicit-state BFS over set_value/evaluate histories on the real compiler, differential oracle',
   text='Every history of evaluate/set_value up to depth 3 (quick) / 4 (thorough) over a 7-9 value alphabet on 16 curated workbooks x 5 model origins (plus ~1000 enumerated workbooks in thorough) is executed on the real ExcelCompiler and each evaluate is compared type-strictly with a from-scratch compile; states deduplicated by canonical key. A coverage statement about all short histories, which is where staleness bugs live.',
   note='Trusts: the from-scratch in-memory compile as oracle; canonical key completeness (fallback: no merging). Bounded depth/alphabet; large workbooks not covered.'),
 'C10': dict(engine='E3-bounded-exhaustive', design_ref='5/C10',
   technique='complete sweep of all operators x all ordered pairs (triples for transitivity) of a 46-value typed pool through the real compiled formulas vs a reference coercion/order table',
   text='All 14 operators x all ordered pairs of a 46-value pool (every type, sign, numeric-looking text, blank, 7 errors) in cell-reference form, literal form and through a real workbook; order axioms (trichotomy, complements, antisymmetry, transitivity on all triples) checked on the fully tabulated relation. Exhaustive over the pool, so measure-zero type boundaries are hit by construction.',
   note='Trusts the reference table mc/ref/ops.py (written from the statement); values outside the pool (extreme magnitudes, padded numeric text, text TRUE/FALSE) are judged for totality only.'),
 'C05': dict(engine='E1-history-bfs', design_ref='5/C05',
   technique='explicit-state BFS over evaluate(access path) histories + exhaustive permutations of first-evaluation order, on the real compiler',
   text='Every history (depth 2 quick / 3 thorough) of evaluate over all access paths of 18 curated workbooks (every cell, every rectangle of the used area, A:A / 1:1 / A:B forms, list/tuple/generator, sheet-less address), on in-memory and xlsx-backed models, with each returned element compared with a fixed-order reference and each call repeated; plus all permutations of first-evaluation order (<= 6 cells). Order/path dependence needs a specific first-evaluation order, which exhaustive enumeration supplies.',
   note='Trusts the fixed-order from-scratch evaluation as the reference; quick tier evaluates an evenly spread subset of rectangles (all in thorough).'),
 'C08': dict(engine='E1-history-bfs', design_ref='5/C08',
   technique='exhaustive enumeration of (input set, output set, trim timing, persistence) configurations x all input-assignment histories, differential against the untrimmed real model',
   text='For 18 workbooks every input set (cells, constant ranges, buried formula cells; size <= 2) x output set (size <= 2) x {cold, warm} trim x {direct, yml, json, pkl}, all histories of input assignments up to depth 2 (3 thorough) over 4 values are replayed on the trimmed model and on an untrimmed model, every output compared after every write. Trim defects need a particular (input, output) topology plus a re-assignment or a round trip, which the enumeration supplies.',
   note='Trusts the untrimmed model as oracle and the specification-derived dependency relation (mc/wb.py) for judging legitimate refusals. None is never written to a formula cell.'),
}
