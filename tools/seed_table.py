#!/usr/bin/env python3
"""Write /verif/seeded/README.md from the meta.json files."""
import glob, json, os
rows = []
for d in sorted(glob.glob('/verif/seeded/C*')):
    try:
        m = json.load(open(os.path.join(d, 'meta.json')))
    except Exception:
        continue
    det = m.get('detected_by', {})
    rows.append((os.path.basename(d), m.get('breaks_property'), (m.get('summary') or '')[:160].replace('|', '/').replace('\n', ' '),
                 (m.get('needs') or '')[:140].replace('|', '/').replace('\n', ' '), det.get('check', ''), det.get('violation_lines', 0),
                 'ported' if m.get('ported') else ''))
out = ['# Seeded property-breaking changes', '',
       'Each directory holds `patch.diff` (applies to the repaired /repo HEAD), `demo.py` (passes without / fails with the patch) and',
       '`meta.json`. All were confirmed by `tools/seed_matrix.py`: unedited suite passes with the patch, demo flips.  The named check reports',
       'violations on every run, except for the rows with 0 VIOLATION lines: those changes are reported by no check (the reason is in their',
       '`meta.json` under `detected_by.not_reported_because` and in DESIGN.md section 20).  "ported" = the sub-agent wrote it against an earlier tree and a later `fix:` touched the same lines;',
       'the same defect idea was re-applied to the repaired code.', '',
       '| seed | property | change | needs | caught by | VIOLATION lines | |', '|---|---|---|---|---|---|---|']
for r in rows:
    out.append('| ' + ' | '.join(str(x) for x in r) + ' |')
open('/verif/seeded/README.md', 'w').write('\n'.join(out) + '\n')
print(len(rows), 'seeds;', sum(1 for r in rows if r[5]), 'caught')
