#!/usr/bin/env python3
"""Re-confirm every kept seeded change against the CURRENT /repo HEAD and re-run its property's check on it.

usage: recheck_seeds.py [-j N] [--no-suite] [seed-id ...]      (default: every /verif/seeded/<id>/)

For each seed, in a scratch worktree of /repo HEAD outside /repo and /verif (removed afterwards):
  demo passes on HEAD, patch applies, (the repository's suite passes with it), demo fails with it,
  ./check <property> --tier quick exits 1 with VIOLATION lines.
meta.json is refreshed (confirmed_by_me / detected_by) for seeds that pass every step; the others are listed.
"""
import concurrent.futures
import json
import os
import shutil
import subprocess
import sys
import tempfile


def sh(cmd, **kw):
    return subprocess.run(cmd, shell=True, capture_output=True, text=True, **kw)


def one(args):
    sid, suite = args
    src = f'/verif/seeded/{sid}'
    pid = sid.split('-')[0]
    try:        # a change whose trigger belongs to another property's alphabet (e.g. a thread schedule) names the check that reports it
        pid = json.load(open(f'{src}/meta.json')).get('detected_with', pid)
    except Exception:
        pass
    wt = tempfile.mkdtemp(prefix='rswt.', dir='/tmp')
    res = dict(seed=sid)
    try:
        assert sh(f'git -C /repo worktree add --detach {wt} HEAD').returncode == 0
        head = sh('git -C /repo rev-parse --short HEAD').stdout.strip()
        env = dict(os.environ, PYTHONPATH=f'{wt}/src', PYTHONHASHSEED='0')
        env.pop('PYCEL_VERIF', None)
        d0 = sh(f'cd {wt} && timeout 900 /venv/bin/python {src}/demo.py', env=env)
        res['demo_on_head'] = d0.returncode
        a = sh(f'git -C {wt} apply {src}/patch.diff')
        res['applies'] = a.returncode == 0
        if not res['applies']:
            res['apply_err'] = a.stderr.strip()[-200:]
            return res
        if suite:
            t = sh(f'cd {wt} && timeout 1800 /venv/bin/python -m pytest -q -p no:cacheprovider -x 2>&1 | tail -1', env=env)
            res['suite_with_patch'] = t.stdout.strip()
            suite_ok = ' passed' in res['suite_with_patch'] and 'failed' not in res['suite_with_patch']
        else:
            suite_ok = True
        d1 = sh(f'cd {wt} && timeout 900 /venv/bin/python {src}/demo.py', env=env)
        res['demo_with_patch'] = d1.returncode
        env2 = dict(os.environ, VERIF_REPO=wt, VERIF_EVIDENCE_DIR=f'{wt}/.evidence')
        c = sh(f'/verif/check {pid} --tier quick', env=env2)
        out = c.stdout
        res['check_exit'] = c.returncode
        res['check_violation_lines'] = out.count('\nVIOLATION') + out.startswith('VIOLATION')
        res['check_first'] = next((ln.strip() for ln in out.splitlines() if ln.startswith('   ')), '')[:300]
        res['ok'] = (d0.returncode == 0 and suite_ok and d1.returncode != 0 and c.returncode == 1
                     and res['check_violation_lines'] > 0)
        if res['ok']:
            meta = json.load(open(f'{src}/meta.json'))
            cb = meta.setdefault('confirmed_by_me', {})
            cb.update(repo_head=head, demo_on_head='PASS (exit 0)', demo_with_patch=f'FAIL (exit {d1.returncode})',
                      procedure='tools/recheck_seeds.py: scratch worktree of /repo HEAD')
            if suite:
                cb['suite_with_patch'] = res['suite_with_patch']
            meta['detected_by'] = dict(check=f'./check {pid} --tier quick', exit=c.returncode,
                                       violation_lines=res['check_violation_lines'], first=res['check_first'])
            json.dump(meta, open(f'{src}/meta.json', 'w'), indent=1)
    finally:
        sh(f'git -C /repo worktree remove --force {wt}')
        shutil.rmtree(wt, ignore_errors=True)
    return res


def main():
    argv = sys.argv[1:]
    j = 3
    suite = True
    if '-j' in argv:
        i = argv.index('-j')
        j = int(argv[i + 1])
        del argv[i:i + 2]
    if '--no-suite' in argv:
        argv.remove('--no-suite')
        suite = False
    ids = argv or sorted(d for d in os.listdir('/verif/seeded') if os.path.isdir(f'/verif/seeded/{d}'))
    bad = []
    with concurrent.futures.ThreadPoolExecutor(j) as ex:
        for r in ex.map(one, [(i, suite) for i in ids]):
            tag = 'ok  ' if r.get('ok') else 'FAIL'
            print(tag, json.dumps(r)[:400], flush=True)
            if not r.get('ok'):
                bad.append(r['seed'])
    print(f'{len(ids) - len(bad)}/{len(ids)} seeds confirmed and caught at HEAD; failing: {bad}')
    return 1 if bad else 0


if __name__ == '__main__':
    sys.exit(main())
