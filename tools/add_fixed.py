#!/usr/bin/env python3
"""tools/add_fixed.py <property> <commit> <what failed>  -- append a 'fixed:' line to known_findings.json"""
import json
import sys
prop, commit, what = sys.argv[1:4]
d = json.load(open('/verif/known_findings.json'))
d['findings'].append({'status': 'fixed', 'property': prop, 'commit': commit, 'line': f'fixed: property={prop} {commit} {what}'})
json.dump(d, open('/verif/known_findings.json', 'w'), indent=1, ensure_ascii=False)
