#!/usr/bin/env python3
"""Regenerate MANIFEST.json from the table below (keeps it schema-valid at all times)."""
import json, os, sys
VERIF = os.path.dirname(os.path.dirname(os.path.abspath(__file__)))
sys.path.insert(0, VERIF)
from tools.manifest_table import CHECKS, NOT_BUILT, HOOK_COMMITS

ALL = [f'C{i:02d}' for i in range(1, 21)]
checks = []
for pid, c in sorted(CHECKS.items()):
    checks.append(dict(
        property_id=pid,
        quick_cmd=f'./check {pid} --tier quick',
        thorough_cmd=f'./check {pid} --tier thorough',
        evidence_file=f'/verif/evidence/{pid}.json',
        replay_cmd_template='./check --replay {path}',
        engine=c['engine'],
        level_claimed=dict(category=c.get('category', 'model_checking'), text=c['text'], design_ref=c['design_ref']),
        level_note=c['note'],
        technique=c['technique'],
    ))
na = [dict(property_id=p, reason=NOT_BUILT.get(p, 'check not built yet (planned, DESIGN.md section 5); nothing is claimed for it'))
      for p in ALL if p not in CHECKS]
man = dict(
    version=1,
    setup_cmd='./check --selftest',
    hooks=dict(guard='PYCEL_VERIF', enable='PYCEL_VERIF=1 (exported by ./check); pycel is imported straight from /repo/src, no build step',
               baseline_off_cmd='cd /repo && env -u PYCEL_VERIF /venv/bin/python -m pytest -ra -q -p no:cacheprovider --timeout=900 --continue-on-collection-errors',
               source_commits=HOOK_COMMITS, add_only=True),
    engines=[
        dict(name='E1-history-bfs', path='mc/explore.py', serves_properties=['C01', 'C03', 'C05', 'C06', 'C08', 'C09'],
             kind_free_text='explicit-state BFS over API histories on the real ExcelCompiler (state = replayed history, canonical-key dedup)'),
        dict(name='E2-schedules', path='mc/sched.py', serves_properties=['C07'],
             kind_free_text='preemption-bounded exhaustive schedule enumeration of two real threads under a baton scheduler'),
        dict(name='E3-bounded-exhaustive', path='mc/props', serves_properties=['C02', 'C04', 'C10', 'C11', 'C13', 'C14', 'C15', 'C16', 'C17', 'C18', 'C19', 'C20'],
             kind_free_text='complete enumeration of finite structured input/term domains through the real compiled formulas vs dumb reference models'),
        dict(name='E4-fault-enumeration', path='mc/props', serves_properties=['C09', 'C12'],
             kind_free_text='every formula cell in turn faulted / perturbed, follow-up histories explored by E1'),
    ],
    checks=checks,
    not_applicable=na,
    notes='All checks run the real implementation from /repo/src (VERIF_REPO overrides for scratch worktrees). known_findings.json is committed and never written at run time.',
)
with open(os.path.join(VERIF, 'MANIFEST.json'), 'w') as f:
    json.dump(man, f, indent=1)
print('MANIFEST.json written:', len(checks), 'checks,', len(na), 'not_applicable')
