#!/usr/bin/env python3
"""Regenerate MANIFEST.json from the table below (keeps it schema-valid at all times)."""
import json, os, sys
VERIF = os.path.dirname(os.path.dirname(os.path.abspath(__file__)))
sys.path.insert(0, VERIF)
from tools.manifest_table import CHECKS, NOT_BUILT, HOOK_COMMITS


# additions of session 4 (DESIGN.md section 19), appended to the texts of tools/manifest_table.py
EXTRA = {
 'C01': ' Session 4: the canonical key covers every attribute of the model and its cells; partly loaded origins (inmem-part, xlsx-part), depth-4 write / read / write / read jobs, recalculate on partly loaded xlsx models, operations placed on two threads (+thr origins), neighbour doubles and the logical twins of stored values in the alphabets; 33 workbooks.',
 'C03': ' Session 4: part C2 enumerates every save history of depth 4 (5 thorough) over {write, lazy compile, to_file x 5 file-type combinations} and all 375 three-save patterns, judged by from_file of the bare name and of each file written; text starting with \'=; iteration switched on without count / delta; a workbook with plugin functions and one with an OFFSET member of a saved range in the lock-step BFS.',
 'C06': ' Session 4: cycles closed only at run time (OFFSET / INDIRECT links) for every 2x2 system; the error bound is judged for every early stop; operations of the acyclic BFS placed on two threads.',
 'C07': ' Session 4: six function-library workloads (rounding x 2, dates x 2, text, lookups) on two threads with a scheduling point at EVERY source line of excellib.py and lib/*.py, one preemption, 11 pairs (all 36 in thorough).',
 'C09': ' Session 4: fault kind RecursionError, validate_calcs(raise_exceptions=True) as an operation, patterns (read, failing validate, write, read) and (failing entry point, write, read), a workbook with two independent roots below one output (trim_graph failing half way); a request holding an address that cannot be built as an operation; the same failing request 210 times over.',
 'C10': ' Session 4: doubles equal to 15 significant digits (order axioms only), cell x literal and literal x cell forms, numpy scalar operands.',
 'C11': ' Session 4: every sheet name over a small coordinate set in the quick tier, sheet names with blanks at the ends, enumeration through collected row / column generators, containment (other sheet, whole columns / rows).',
 'C12': ' Session 4: stored results far below 1e-8 (workbook tiny, perturbation at the value\'s own magnitude).',
 'C13': ' Session 4: arrays of 9-16 elements holding every type twin, each twin first in turn; array formulas on 20 sheet names that need quoting inside a formula; one array formula text over targets of different shapes.',
 'C04': ' Session 4: whole column / row plus a written cell beyond the used area (a write to a read cell must reach the reader).',
 'C15': ' Session 4: tilde escapes judged, criteria ranges of equal cell count but different shape must give an error value, a criterion given twice (same range / a range with equal values) selects what it selects once.',
 'C16': ' Session 4: LOOKUP vector form with a column of keys and a row of results and the reverse.',
 'C17': ' Session 4: the years sharing 1900\'s place in the 400-year cycle together with 1900 in one brand-new process (both orders), month shifts to years <= 0 for every residue mod 12, infinite arguments.',
 'C18': ' Session 4: 0 / 1 and FALSE / TRUE converted one after the other in brand-new processes, logicals first and numbers first.',
 'C19': ' Session 4: the extreme-magnitude, MOD and argument-form jobs re-run on a fresh thread; numbers arriving as text and as numpy scalars.',
 'C20': ' Session 4: TEXT ties and slices on a fresh thread.',
}

ALL = [f'C{i:02d}' for i in range(1, 21)]
checks = []
for pid, c in sorted(CHECKS.items()):
    checks.append(dict(
        property_id=pid,
        quick_cmd=f'./check {pid} --tier quick',
        thorough_cmd=f'./check {pid} --tier thorough',
        evidence_file=f'/verif/evidence/{pid}.json',
        replay_cmd_template='./check --replay {path}',
        engine=c['engine'],
        level_claimed=dict(category=c.get('category', 'model_checking'), text=c['text'] + EXTRA.get(pid, ''), design_ref=c['design_ref'] + (', 19' if pid in EXTRA else '')),
        level_note=c['note'],
        technique=c['technique'],
    ))
na = [dict(property_id=p, reason=NOT_BUILT.get(p, 'check not built yet (planned, DESIGN.md section 5); nothing is claimed for it'))
      for p in ALL if p not in CHECKS]
man = dict(
    version=1,
    setup_cmd='./check --selftest',
    hooks=dict(guard='PYCEL_VERIF', enable='PYCEL_VERIF=1 (exported by ./check); pycel is imported straight from /repo/src, no build step',
               baseline_off_cmd='cd /repo && env -u PYCEL_VERIF /venv/bin/python -m pytest -ra -q -p no:cacheprovider --timeout=900 --continue-on-collection-errors',
               source_commits=HOOK_COMMITS, add_only=True),
    engines=[
        dict(name='E1-history-bfs', path='mc/explore.py', serves_properties=['C01', 'C03', 'C05', 'C06', 'C08', 'C09'],
             kind_free_text='explicit-state BFS over API histories on the real ExcelCompiler (state = replayed history, canonical-key dedup)'),
        dict(name='E2-schedules', path='mc/sched.py', serves_properties=['C07'],
             kind_free_text='preemption-bounded exhaustive schedule enumeration of two real threads under a baton scheduler'),
        dict(name='E3-bounded-exhaustive', path='mc/props', serves_properties=['C02', 'C04', 'C10', 'C11', 'C13', 'C14', 'C15', 'C16', 'C17', 'C18', 'C19', 'C20'],
             kind_free_text='complete enumeration of finite structured input/term domains through the real compiled formulas vs dumb reference models'),
        dict(name='E4-fault-enumeration', path='mc/props', serves_properties=['C09', 'C12'],
             kind_free_text='every formula cell in turn faulted / perturbed, follow-up histories explored by E1'),
    ],
    checks=checks,
    not_applicable=na,
    notes='All checks run the real implementation from /repo/src (VERIF_REPO overrides for scratch worktrees). known_findings.json is committed and never written at run time.',
)
with open(os.path.join(VERIF, 'MANIFEST.json'), 'w') as f:
    json.dump(man, f, indent=1)
print('MANIFEST.json written:', len(checks), 'checks,', len(na), 'not_applicable')
