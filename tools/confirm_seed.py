#!/usr/bin/env python3
"""Confirm a seeded change myself and file it under /verif/seeded/<ID>-<k>/.
usage: confirm_seed.py /tmp/seed_out/C10/1
 - scratch worktree of /repo HEAD under /tmp (removed afterwards)
 - demo passes on HEAD, patch applies, full suite passes with patch, demo fails with patch
"""
import json, os, shutil, subprocess, sys, tempfile

src = sys.argv[1].rstrip('/')
k = os.path.basename(src); pid = os.path.basename(os.path.dirname(src))
dest = f'/verif/seeded/{pid}-{k}'
wt = tempfile.mkdtemp(prefix='confwt.', dir='/tmp')
def sh(cmd, **kw):
    return subprocess.run(cmd, shell=True, capture_output=True, text=True, **kw)
res = {}
try:
    r = sh(f'git -C /repo worktree add --detach {wt} HEAD')
    assert r.returncode == 0, r.stderr
    head = sh('git -C /repo rev-parse --short HEAD').stdout.strip()
    env = dict(os.environ, PYTHONPATH=f'{wt}/src', PYTHONHASHSEED='0')
    env.pop('PYCEL_VERIF', None)
    d0 = sh(f'cd {wt} && timeout 600 /venv/bin/python {src}/demo.py', env=env)
    res['demo_on_head'] = (d0.returncode, (d0.stdout + d0.stderr).strip()[-300:])
    a = sh(f'git -C {wt} apply {src}/patch.diff')
    if a.returncode != 0:
        a = sh(f'git -C {wt} apply --3way {src}/patch.diff')
    res['applies'] = a.returncode == 0
    if res['applies']:
        t = sh(f'cd {wt} && timeout 900 /venv/bin/python -m pytest -q -p no:cacheprovider -x 2>&1 | tail -1', env=env)
        res['suite_with_patch'] = t.stdout.strip()
        d1 = sh(f'cd {wt} && timeout 600 /venv/bin/python {src}/demo.py', env=env)
        res['demo_with_patch'] = (d1.returncode, (d1.stdout + d1.stderr).strip()[-400:])
    ok = (res['demo_on_head'][0] == 0 and res.get('applies') and ' passed' in res.get('suite_with_patch', '')
          and 'failed' not in res.get('suite_with_patch', '') and res['demo_with_patch'][0] != 0)
    res['confirmed'] = bool(ok)
    res['head'] = head
    if ok:
        os.makedirs(dest, exist_ok=True)
        shutil.copy(f'{src}/patch.diff', dest); shutil.copy(f'{src}/demo.py', dest)
        try:
            meta = json.load(open(f'{src}/meta.json'))
        except Exception:
            meta = {}
        meta['confirmed_by_me'] = dict(repo_head=head, demo_on_head='PASS (exit 0)', suite_with_patch=res['suite_with_patch'],
                                       demo_with_patch=f'FAIL (exit {res["demo_with_patch"][0]})',
                                       procedure='tools/confirm_seed.py in a scratch worktree of /repo HEAD')
        meta['breaks_property'] = pid
        json.dump(meta, open(f'{dest}/meta.json', 'w'), indent=1)
finally:
    sh(f'git -C /repo worktree remove --force {wt}')
    shutil.rmtree(wt, ignore_errors=True)
print(pid, k, 'CONFIRMED' if res.get('confirmed') else 'REJECTED', json.dumps(res)[:600])
