#!/usr/bin/env python3
"""Confirm every seeded change at /repo HEAD and run the check of its property against it.
usage: seed_matrix.py <src dir> ...   (each: patch.diff, demo.py, meta.json; name .../CNN/k)
Writes /verif/seeded/<ID>-<k>/ (patch, demo, meta with confirmation + detection) for confirmed ones."""
import json, os, shutil, subprocess, sys, tempfile

def sh(cmd, **kw):
    return subprocess.run(cmd, shell=True, capture_output=True, text=True, **kw)

def one(src):
    src = src.rstrip('/')
    k = os.path.basename(src); pid = os.path.basename(os.path.dirname(src))
    wave = 'w5-' if 'seed_out5' in src else 'w4-' if 'seed_out4' in src else 'w3-' if 'seed_out3' in src else 'w2-' if 'seed_out2' in src else ''
    if len(pid) > 3:            # wave 4: agent directories C01a, C01b, ... -> seeds C01-w4-a1, C01-w4-b1
        wave += pid[3:]
        pid = pid[:3]
    dest = f'/verif/seeded/{pid}-{wave}{k.rstrip("p")}'
    wt = tempfile.mkdtemp(prefix='smwt.', dir='/tmp')
    res = dict(seed=f'{pid}-{wave}{k}')
    try:
        assert sh(f'git -C /repo worktree add --detach {wt} HEAD').returncode == 0
        head = sh('git -C /repo rev-parse --short HEAD').stdout.strip()
        env = dict(os.environ, PYTHONPATH=f'{wt}/src', PYTHONHASHSEED='0'); env.pop('PYCEL_VERIF', None)
        d0 = sh(f'cd {wt} && timeout 900 /venv/bin/python {src}/demo.py', env=env)
        res['demo_on_head'] = d0.returncode
        a = sh(f'git -C {wt} apply {src}/patch.diff')
        res['applies'] = a.returncode == 0
        if not res['applies']:
            return res
        t = sh(f'cd {wt} && timeout 1200 /venv/bin/python -m pytest -q -p no:cacheprovider -x 2>&1 | tail -1', env=env)
        res['suite_with_patch'] = t.stdout.strip()
        d1 = sh(f'cd {wt} && timeout 900 /venv/bin/python {src}/demo.py', env=env)
        res['demo_with_patch'] = d1.returncode
        res['demo_tail'] = (d1.stdout + d1.stderr).strip()[-300:]
        ok = d0.returncode == 0 and ' passed' in res['suite_with_patch'] and 'failed' not in res['suite_with_patch'] and d1.returncode != 0
        res['confirmed'] = ok
        env2 = dict(os.environ, VERIF_REPO=wt, VERIF_EVIDENCE_DIR=f'{wt}/.evidence')
        c = sh(f'/verif/check {pid} --tier quick', env=env2)
        out = c.stdout
        res['check_exit'] = c.returncode
        res['check_violation_lines'] = out.count('\nVIOLATION') + out.startswith('VIOLATION')
        res['check_first'] = next((l.strip() for l in out.splitlines() if l.startswith('   ')), '')[:300]
        res['head'] = head
        if ok:
            os.makedirs(dest, exist_ok=True)
            shutil.copy(f'{src}/patch.diff', dest); shutil.copy(f'{src}/demo.py', dest)
            try:
                meta = json.load(open(f'{src}/meta.json'))
            except Exception:
                meta = {}
            meta['breaks_property'] = pid
            meta['ported'] = k.endswith('p')
            meta['confirmed_by_me'] = dict(repo_head=head, demo_on_head='PASS (exit 0)', suite_with_patch=res['suite_with_patch'],
                                           demo_with_patch=f'FAIL (exit {d1.returncode})', procedure='tools/seed_matrix.py: scratch worktree of /repo HEAD')
            meta['detected_by'] = dict(check=f'./check {pid} --tier quick', exit=c.returncode, violation_lines=res['check_violation_lines'],
                                       first=res['check_first'])
            json.dump(meta, open(f'{dest}/meta.json', 'w'), indent=1)
    finally:
        sh(f'git -C /repo worktree remove --force {wt}')
        shutil.rmtree(wt, ignore_errors=True)
    return res

if __name__ == '__main__':
    r = one(sys.argv[1])
    print(json.dumps(r))
