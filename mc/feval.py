"""Evaluate Excel formula text through the real pipeline (tokenizer -> rpn -> emitter -> python-AST
rewrite -> operand fixup -> library) with stub cell/range readers backed by a dict."""
from pycel.excelformula import ExcelFormula
from pycel.excelutil import AddressRange, AddressCell


class FakeCell:
    """what ExcelFormula needs from a cell: address, sheet, excel"""
    def __init__(self, address, excel=None):
        self.address = AddressCell(address)
        self.sheet = self.address.sheet
        self.excel = excel
        self.row = self.address.row
        self.col_idx = self.address.col_idx


class Evaluator:
    def __init__(self, plugins=None):
        self.env = {}
        self.reads = []
        self.ctx = ExcelFormula.build_eval_context(self._cell, self._range, plugins=plugins)
        self.cache = {}

    def _cell(self, addr):
        self.reads.append(addr)
        return self.env.get(str(addr).split('!')[-1])

    def _range(self, addr):
        self.reads.append(addr)
        a = AddressRange(addr)
        if not a.is_range:
            return ((self._cell(a.address),),)
        return tuple(tuple(self.env.get(c.coordinate) for c in row) for row in a.rows)

    def formula(self, text, cell=None):
        key = (text, cell and cell.address)
        f = self.cache.get(key)
        if f is None:
            f = ExcelFormula(text, cell=cell)
            if len(self.cache) > 20000:
                self.cache.clear()
            self.cache[key] = f
        return f

    def run(self, text, env=None, cse=None, cell=None):
        """returns ('ok', value) or ('exc', type_name, message)"""
        if env is not None:
            self.env = env
        try:
            f = self.formula(text, cell)
            return ('ok', self.ctx(f, cse_array_address=cse))
        except Exception as exc:    # noqa
            return ('exc', type(exc).__name__, str(exc)[-300:])
