"""python -m mc.freshjob <module> <function> <json job>  -> one JSON line (the worker's Acc.result()).

Runs one worker function in a brand-new interpreter, so that whatever the library remembers at module level (caches,
lazily built tables, "first use" switches) starts empty: the ORDER in which a fresh process meets its inputs becomes
part of the enumerated history."""
import importlib
import json
import logging
import sys

logging.disable(logging.CRITICAL)


def main():
    mod, fn, job = sys.argv[1], sys.argv[2], json.loads(sys.argv[3])
    res = getattr(importlib.import_module(mod), fn)(job)
    from mc.runner import jsonable
    print('FRESHJOB-RESULT ' + json.dumps(jsonable(res)))


if __name__ == '__main__':
    main()
