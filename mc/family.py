"""The workbook family W: curated core + enumerated (thorough) family."""
import itertools

from mc import wb as W


def S(cells, **kw):
    d = {'sheets': {'S': cells}, 'active': 'S'}
    d.update(kw)
    return d


def curated():
    fam = []

    def add(name, spec, ranges=(), unbounded=(), inputs=None, tags=()):
        fam.append(dict(name=name, spec=spec, ranges=list(ranges), unbounded=list(unbounded),
                        inputs=inputs, tags=list(tags)))

    add('chain', S({'A1': 1, 'B1': '=A1+1', 'C1': '=B1*2', 'D1': '=C1&""'}), ranges=['S!A1:D1'])
    add('diamond', S({'A1': 2, 'B1': '=A1+1', 'C1': '=A1*3', 'D1': '=B1+C1'}), ranges=['S!B1:D1'])
    add('triangle', S({'A1': 1, 'B1': '=A1+1', 'D1': '=A1*2', 'C1': '=A1+D1', 'E1': '=C1+B1'}), ranges=['S!B1:D1'])
    add('fan_range', S({'A1': 1, 'A2': 2, 'A3': 3, 'B1': '=SUM(A1:A3)', 'C1': '=B1+A2'}),
        ranges=['S!A1:A3', 'S!A1:C1'])
    add('nested', S({'A1': 1, 'A2': 2, 'B1': 3, 'B2': 4, 'C1': '=SUM(A1:B2)', 'C2': '=SUM(A1:A2)',
                     'C3': '=C1-C2'}), ranges=['S!A1:B2', 'S!A1:A2', 'S!C1:C3'])
    add('overlap', S({'A1': 1, 'A2': 2, 'A3': 3, 'B1': '=SUM(A1:A2)', 'B2': '=SUM(A2:A3)', 'B3': '=B1+B2'}),
        ranges=['S!A2:A3', 'S!B1:B3'])
    add('unbounded', S({'A1': 1, 'A2': 2, 'A3': 3, 'B1': '=SUM(A:A)', 'B2': '=SUM(3:3)', 'C3': 5}),
        unbounded=['S!A:A', 'S!3:3'], ranges=['S!A1:A3'])
    add('bounded_and_unbounded', S({'A1': 1, 'A2': 2, 'A3': 3, 'E1': '=SUM(A1:A3)', 'F1': '=SUM(A:A)', 'G1': '=E1+F1'}),
        unbounded=['S!A:A'], ranges=['S!A1:A3'], inputs=['S!A1', 'S!A3'])
    add('single_row_unbounded', S({'A1': 3, 'B1': '=SUM(A:A)*2', 'C1': '=B1+1', 'D1': '=A1*10+SUM(A:A)'}), unbounded=['S!A:A'],
        ranges=['S!A1:C1'])
    add('cse_out', S({'A1': 1, 'A2': 2, 'D1:D2': {'array': '=A1:A2*2'}, 'E1': 5}), ranges=['S!D1:D2'], tags=['cse'])
    add('unbounded_formulas', S({'A1': 1, 'A2': '=A1+1', 'A3': '=A2*2', 'B1': '=SUM(A:A)', 'C1': '=SUM(2:2)', 'B2': 7}),
        unbounded=['S!A:A', 'S!2:2'], ranges=['S!A1:A3'], inputs=['S!A1', 'S!B2'])
    add('empty_text', S({'A1': 1, 'B1': '=IF(A1>5,"big","")', 'C1': '=B1&"x"', 'D1': '=LEN(B1)', 'E1': '=A1+1'}),
        ranges=['S!B1:D1'])
    add('cse2', S({'A1': 1, 'A2': 2, 'D1:D2': {'array': '=A1:A2*2'}, 'B1:B2': {'array': '=D1:D2+1'}, 'F1': '=SUM(B1:B2)'}),
        ranges=['S!B1:B2', 'S!D1:D2'], tags=['cse'])
    # two array formulas side by side whose texts start alike; ranges that span both
    add('cse_twins', S({'A1': 1, 'B1': 2, 'D1:E1': {'array': '=A1:B1*2'}, 'D2:E2': {'array': '=A1:B1*20'},
                        'F1': '=SUM(D1:E2)', 'F2': '=D2+E1'}),
        ranges=['S!D1:E2', 'S!D1:E1', 'S!D2:E2', 'S!D1:D2'], tags=['cse'], inputs=['S!A1', 'S!B1'])
    # float constants whose sum depends on HOW python adds them (compensated summation for plain floats only)
    add('float_sum', S({'A1': 0.1, 'A2': 0.2, 'A3': 0.3, 'B1': '=SUM(A1:A3)', 'B2': '=AVERAGE(A1:A3)', 'B3': '=B1=0.6', 'C1': '=A1+A2+A3'}),
        ranges=['S!A1:A3'], inputs=['S!A1', 'S!A3'])
    # range intersections: the operand ranges are declared precedents that the formula never reads itself
    add('intersection', S({'A1': 1, 'B1': 2, 'C1': 3, 'A2': 4, 'B2': 5, 'C2': 6, 'E1': '=SUM(A1:B2 B1:C2)', 'E2': '=A:A 2:2',
                           'F1': '=E1+E2'}),
        ranges=['S!B1:B2', 'S!A1:B2'], unbounded=['S!A:A'], inputs=['S!B2', 'S!A2', 'S!C1'])
    # an array formula over a blank: the element is 0 in the member cell AND in the range
    add('cse_blank', S({'A1': 1, 'A2': 2, 'B1': 4, 'E1:F2': {'array': '=A1:B2'}, 'H1': '=COUNT(E1:F2)', 'H2': '=F2+1'}),
        ranges=['S!E1:F2', 'S!F1:F2'], tags=['cse'], inputs=['S!A1', 'S!B1'])
    # the SAME array formula text entered twice, one block on top of the other
    add('cse_same_text', S({'A1': 1, 'A2': 2, 'C1:C2': {'array': '=A1:A2*2'}, 'C3:C4': {'array': '=A1:A2*2'}, 'E1': '=SUM(C1:C4)'}),
        ranges=['S!C1:C4', 'S!C1:C2', 'S!C3:C4', 'S!C2:C3'], tags=['cse'], inputs=['S!A1', 'S!A2'])
    # an ordinary formula whose result is a range that starts with an empty cell (it shows the first element, 0)
    add('first_blank', S({'A2': 2, 'B1': 5, 'E1': '=A1:A2', 'F1': '=E1+B1', 'G1': '=SUM(A1:A2)+E1'}), ranges=['S!A1:A2', 'S!E1:G1'],
        inputs=['S!A1', 'S!B1'])
    add('two_sheets', {'sheets': {'S': {'A1': "='Sheet 1'!A1+1", 'B1': "=SUM('Sheet 1'!A1:A2)"},
                                  'Sheet 1': {'A1': 5, 'A2': 6}}, 'active': 'S'},
        ranges=['Sheet 1!A1:A2'])
    add('names', S({'A1': 1, 'A2': 2, 'A3': 3, 'B1': '=nm*2', 'B2': '=SUM(rg)'},
                   names={'nm': ['S', '$A$1'], 'rg': ['S', '$A$1:$A$3']}), ranges=['S!A1:A3'])
    add('cse', S({'A1': 1, 'A2': 2, 'B1': 3, 'B2': 4, 'D1:E2': {'array': '=A1:B2*2'},
                  'F1': '=D1+E2', 'F2': '=SUM(D1:E2)', 'F3': '=SUM(D2:E2)'}), ranges=['S!D1:E2', 'S!A1:B2'], tags=['cse'])
    add('cse_ctx', S({'D1': 1, 'D2': 2, 'B1': 10, 'B2': 20, 'C1': '=IFERROR(D1:D2,99)',
                      'A1:A2': {'array': '=C1+B1:B2'}, 'E1': '=A1+A2'}), ranges=['S!A1:A2'], tags=['cse'],
        inputs=['S!D1', 'S!B2'])
    add('blank', S({'B1': '=A1+1', 'C1': '=A1&"x"', 'D1': '=ISBLANK(A1)', 'E1': 1}),
        inputs=['S!A1'], ranges=['S!A1:B1'])
    add('types', S({'A1': 0, 'B1': '=A1&""', 'C1': '=ISLOGICAL(A1)', 'D1': '=A1=0', 'E1': '=ISNUMBER(A1)',
                    'F1': '=ISTEXT(A1)'}), ranges=['S!A1:C1'])
    add('if', S({'A1': 1, 'A2': 10, 'A3': 20, 'B1': '=IF(A1>0,A2,A3)'}), ranges=['S!A1:A3'])
    add('lookup', S({'A1': 1, 'B1': 10, 'A2': 2, 'B2': 20, 'A3': 3, 'B3': 30, 'D1': '=INDEX(A1:B3,2,2)',
                     'D2': '=VLOOKUP(2,A1:B3,2,FALSE)', 'D3': '=MATCH(B2,B1:B3,0)'}), ranges=['S!A1:B3'],
        inputs=['S!A2', 'S!B2'])
    add('errformula', S({'A1': 0, 'B1': '=1/A1', 'C1': '=IFERROR(B1,-1)', 'D1': '=B1+1'}), ranges=['S!A1:D1'])
    add('errconst', S({'A1': '#N/A', 'B1': '=A1+1', 'C1': '=ISNA(A1)', 'A2': 1, 'B2': '=SUM(A1:A2)'}),
        ranges=['S!A1:A2'])
    add('mixed_range', S({'A1': 1, 'A2': 'x', 'A3': True, 'B1': '=SUM(A1:A3)', 'B2': '=COUNT(A1:A3)',
                          'B3': '=COUNTIF(A1:A3,"x")', 'C1': '=A1+A3'}), ranges=['S!A1:A3'])
    add('range_of_formulas', S({'A1': 1, 'A2': '=A1+1', 'A3': '=A2*2', 'B1': '=SUM(A1:A3)', 'C1': '=B1+1',
                                'D1': '=VLOOKUP(2,A1:A3,1,FALSE)'}), ranges=['S!A1:A3'], inputs=['S!A1'])
    add('zero_results', S({'A1': 5, 'B1': '=A1-5', 'C1': '=A1>9', 'D1': '=B1+1', 'E1': '=IF(C1,1,"no")', 'F1': '=A1&""'}),
        ranges=['S!B1:D1'])
    add('sheet_range_name', {'sheets': {'S': {'A1': '=SUM(tbl)', 'B1': "=INDEX('D 2'!A1:B2,2,1)+A1", 'C1': '=COUNTIF(tbl,">1")'},
                                        'D 2': {'A1': 1, 'B1': 2, 'A2': 3, 'B2': 4}}, 'active': 'S',
                             'names': {'tbl': ['D 2', '$A$1:$B$2']}}, ranges=['D 2!A1:B2'], inputs=['D 2!A1', 'D 2!B2'])
    for f in fam:
        if f['inputs'] is None:
            f['inputs'] = W.constant_cells(f['spec'])
        f['cells'] = W.all_cells(f['spec'])
        for i in f['inputs']:
            if i not in f['cells']:
                f['cells'].append(i)
    return fam


TEMPLATES = [
    ('inc', 1, lambda x: f'={x[0]}+1'),
    ('add', 2, lambda x: f'={x[0]}+{x[1]}'),
    ('cat', 1, lambda x: f'={x[0]}&""'),
    ('sum', 2, lambda x: f'=SUM({x[0]}:{x[1]})'),
    ('if', 3, lambda x: f'=IF({x[0]}>0,{x[1]},{x[2]})'),
    ('eq0', 1, lambda x: f'={x[0]}=0'),
    ('sumcol', 0, lambda x: '=SUM(A:A)'),
]


def enumerated(limit=None):
    """cells A1,A2 constants (column A), B1..B3 formulas over earlier cells, all template assignments."""
    names = ['A1', 'A2', 'B1', 'B2', 'B3']
    fam = []

    def choices(k):
        earlier = names[:k]
        out = []
        for tname, arity, fn in TEMPLATES:
            if arity == 0:
                out.append((tname, fn(())))
            else:
                for args in itertools.product(earlier, repeat=arity):
                    if tname in ('add',) and args[0] > args[1]:
                        continue
                    if tname == 'sum':
                        # a range must be a proper rectangle not containing the formula cell itself
                        if args[0] >= args[1] or args[0][0] != args[1][0] and args[0][1] != args[1][1]:
                            continue
                    if tname == 'if' and len(set(args)) < 3 and k > 2:
                        continue
                    out.append((tname, fn(args)))
        return out
    for f3 in choices(2):
        for f4 in choices(3):
            for f5 in choices(4):
                spec = S({'A1': 1, 'A2': 2, 'B1': f3[1], 'B2': f4[1], 'B3': f5[1]})
                # every later formula must use at least one formula cell, else it is a relabelling of a smaller wb
                if 'B1' not in f4[1] and 'B1' not in f5[1] and 'B2' not in f5[1]:
                    continue
                name = f'enum:{f3[1]}|{f4[1]}|{f5[1]}'
                # SUM ranges that would include the formula's own cell are cycles: skip
                bad = False
                for cell, ftxt in (('B1', f3[1]), ('B2', f4[1]), ('B3', f5[1])):
                    if f'S!{cell}' in W.formula_refs(ftxt, 'S', spec):
                        bad = True
                if bad:
                    continue
                fam.append(dict(name=name, spec=spec, ranges=['S!A1:B2'], unbounded=['S!A:A'],
                                inputs=['S!A1', 'S!A2'], tags=['enum'], cells=W.all_cells(spec)))
    if limit:
        step = max(1, len(fam) // limit)
        fam = fam[::step][:limit]
    return fam
