"""Plugin functions the harness passes to ExcelCompiler(plugins='mc.plugins').

VBOOM(id, x): passes x through, or raises according to MODE[id]  ('always' | ('kth', k)).
VTICK(id, x): passes x through and logs (id, x) -- used to count iterative passes.
State is per process and reset by the harness before every execution.
"""
CALLS = {}
MODE = {}
LOG = []
FIRED = []


def reset(mode=None):
    CALLS.clear()
    MODE.clear()
    if mode:
        MODE.update(mode)
    del LOG[:]
    del FIRED[:]


def vboom(fid, x):
    n = CALLS[fid] = CALLS.get(fid, 0) + 1
    mode = MODE.get(fid)
    if mode == 'always' or (isinstance(mode, tuple) and mode[0] == 'kth' and n == mode[1]):
        FIRED.append((fid, n))
        raise RuntimeError(f'boom {fid} call {n}')
    if isinstance(mode, tuple) and mode[0] == 'always':
        FIRED.append((fid, n))
        raise EXC[mode[1]](f'boom {fid} call {n}')
    return x


EXC = {'NameError': NameError, 'KeyError': KeyError, 'AssertionError': AssertionError,
       'UnboundLocalError': UnboundLocalError, 'AttributeError': AttributeError, 'RecursionError': RecursionError}


def vtick(fid, x):
    LOG.append((fid, x))
    return x
