"""E1: explicit-state breadth-first exploration of API histories on the real implementation.

A state is re-created by replaying its history on a fresh object (live compilers
cannot be copied).  Canonical keys are used ONLY to prune; if introspection of
the compiler fails the history itself becomes the key (no merging).
"""
from mc.wb import tag


class Problem:
    """Subclass per property / workbook."""
    ops = ()
    static_ops = True

    def new(self):
        raise NotImplementedError

    def step(self, state, op):
        """apply op to the real object(s); return observation"""
        raise NotImplementedError

    def check(self, state, hist, op, obs):
        """return None or a violation message"""
        return None

    def canon(self, state):
        raise NotImplementedError

    def enabled(self, state, hist):
        return self.ops

    def dispose(self, state):
        """release what a replayed state holds (worker threads); called when the explorer is done with it"""


SKIP_MODEL = {'cell_map', 'dep_graph', 'excel', 'log', '_eval', 'eval', 'evaluate', 'Cell', 'CellRange', 'graph_todos', 'range_todos'}
SKIP_CELL = {'excel', 'address', 'addresses', 'id', 'formula', 'size'}


def summ(v, depth=0):
    """hashable summary of an attribute value: simple values type-tagged, cells by address, containers element-wise,
    anything else by its type name (coarser only for objects no operation can compare)"""
    if v is None or isinstance(v, (bool, int, float, str, bytes)):
        return tag(v)
    a = getattr(getattr(v, 'address', None), 'address', None)
    if isinstance(a, str):
        return ('cell', a)
    if depth > 3:
        return ('deep', type(v).__name__)
    if isinstance(v, (list, tuple)):
        return ('seq', tuple(summ(x, depth + 1) for x in v[:300]))
    if isinstance(v, (set, frozenset)):
        return ('set', tuple(sorted(repr(summ(x, depth + 1)) for x in v)))
    if isinstance(v, dict):
        return ('dict', tuple(sorted((repr(summ(k, depth + 1)), repr(summ(x, depth + 1))) for k, x in v.items())))
    return ('obj', type(v).__name__)


def canon_compiler(m):
    """Canonical, hashable summary of the model: EVERY attribute of the compiler and of each cell / range node (simple
    values, containers of them, references to cells), the graph, and the lengths of the work queues -- so that a field
    this harness has never heard of still separates the states it distinguishes (finer keys only cost time)."""
    try:
        cells = []
        for addr, c in m.cell_map.items():
            d = c.__dict__
            f = d.get('formula')
            code = getattr(f, 'python_code', None) if f else None
            rest = tuple(sorted((k, repr(summ(v))) for k, v in d.items() if k not in SKIP_CELL))
            cells.append((addr, type(c).__name__, code, rest))
        cells.sort(key=repr)
        edges = sorted((u.address.address, v.address.address) for u, v in m.dep_graph.edges())
        nodes = sorted(n.address.address for n in m.dep_graph.nodes())
        todo = (len(m.graph_todos or ()), len(m.range_todos or ()))
        model = tuple(sorted((k, repr(summ(v))) for k, v in m.__dict__.items() if k not in SKIP_MODEL))
        return ('K', tuple(cells), tuple(edges), tuple(nodes), todo, model)
    except Exception as exc:   # introspection failed: never a verdict
        return ('NOKEY', repr(exc))


def bfs(problem, max_depth, acc, max_states=None, on_state=None, shard=None):
    """Depth-iterated BFS.  Returns dict(states, transitions, depth_completed, fixpoint)."""
    dispose = getattr(problem, 'dispose', None) or (lambda st: None)
    s0 = problem.new()
    k0 = problem.canon(s0)
    dispose(s0)
    nokey = isinstance(k0, tuple) and k0 and k0[0] == 'NOKEY'
    seen = {k0 if not nokey else ()}
    frontier = [()]
    states, transitions = 1, 0
    depth_completed = 0
    fixpoint = False
    capped = False
    for depth in range(1, max_depth + 1):
        nxt = []
        for hist in frontier:
            # enabled ops are computed on a fresh replay of hist
            if problem.static_ops:
                ops = problem.ops
                if shard and depth == 1:
                    # shard k of n explores the subtrees below every n-th first operation
                    ops = [o for i, o in enumerate(ops) if i % shard[1] == shard[0]]
            else:
                base = problem.new()
                for o in hist:
                    problem.step(base, o)
                ops = list(problem.enabled(base, hist))
                dispose(base)
            for op in ops:
                st = problem.new()
                for o in hist:
                    problem.step(st, o)
                obs = problem.step(st, op)
                transitions += 1
                msg = problem.check(st, hist, op, obs)
                if msg:
                    acc.violation(problem.case(hist, op, obs), msg)
                k = problem.canon(st)
                if isinstance(k, tuple) and k and k[0] == 'NOKEY':
                    nokey = True
                    k = hist + (op,)
                if k not in seen:
                    seen.add(k)
                    states += 1
                    nxt.append(hist + (op,))
                    if on_state:
                        on_state(st, hist + (op,))
                dispose(st)
                if max_states and states >= max_states:
                    capped = True
                    break
            if capped:
                break
        if capped:
            break
        depth_completed = depth
        frontier = nxt
        if not frontier:
            fixpoint = True
            break
    return dict(states=states, transitions=transitions, depth_completed=depth_completed,
                fixpoint=fixpoint, capped=capped, nokey=nokey)


class Worker:
    """a real thread that executes callables handed to it one at a time (the caller waits): lets a history place each of
    its operations on one of several threads, deterministically"""

    def __init__(self):
        import queue
        import threading
        self.q, self.r = queue.Queue(), queue.Queue()
        self.t = threading.Thread(target=self._loop, daemon=True)
        self.t.start()

    def _loop(self):
        while True:
            f = self.q.get()
            if f is None:
                return
            try:
                self.r.put(('ok', f()))
            except BaseException as exc:     # noqa
                self.r.put(('exc', exc))

    def call(self, f):
        self.q.put(f)
        k, v = self.r.get()
        if k == 'exc':
            raise v
        return v

    def stop(self):
        self.q.put(None)
        self.t.join(10)
