"""./check <ID> [--tier quick|thorough]   |   ./check --replay <file>   |   ./check --selftest"""
import argparse
import importlib
import json
import logging
import os
import sys


def main():
    ap = argparse.ArgumentParser()
    ap.add_argument('pid', nargs='?')
    ap.add_argument('--tier', default=os.environ.get('VERIF_TIER', 'quick'), choices=['quick', 'thorough'])
    ap.add_argument('--replay')
    ap.add_argument('--selftest', action='store_true')
    args = ap.parse_args()
    logging.getLogger('pycel').disabled = True
    logging.disable(logging.CRITICAL)
    try:
        seed = int(os.environ.get('VERIF_SEED', '0'))
    except ValueError:
        seed = 0

    if args.selftest:
        from mc import selftest
        sys.exit(selftest.main())

    if args.replay:
        with open(args.replay) as f:
            rec = json.load(f)
        mod = importlib.import_module('mc.props.' + rec['property'].lower())
        reproduced, text = mod.replay(rec['case'])
        print(text)
        print('REPRODUCED' if reproduced else 'NOT-REPRODUCED', 'property=' + rec['property'])
        sys.exit(1 if reproduced else 0)

    if not args.pid:
        ap.error('property id required')
    from mc.runner import Ctx
    mod = importlib.import_module('mc.props.' + args.pid.lower())
    ctx = Ctx(mod, args.tier, seed)
    mod.run(ctx)
    sys.exit(ctx.finish())


if __name__ == '__main__':
    main()
