"""E2: preemption-bounded exhaustive schedule enumeration of two real threads under a baton.

Exactly one thread runs at a time; control changes hands only at scheduling points (calls to
Sched.point()) or when a thread finishes.  A schedule is the sorted list of global point indices at
which the running thread is preempted in favour of the other one.  The default (no preemption) is
thread 0 to completion, then thread 1.
"""
import sys
import threading

_local_tid = {}      # thread ident -> tid of the current execution


class Deadlock(Exception):
    pass


class Sched:
    def __init__(self, preempt_at):
        self.preempt_at = set(preempt_at)
        self.k = 0
        self.sems = [threading.Semaphore(0), threading.Semaphore(0)]
        self.done = [False, False]
        self.trace = []          # (k, tid, name, other_alive)
        self.used = []
        self.tracer = None       # optional sys.settrace function installed in the two threads

    def point(self, name=''):
        tid = _local_tid.get(threading.get_ident())
        if tid is None:
            return
        k = self.k
        self.k += 1
        other_alive = not self.done[1 - tid]
        self.trace.append((k, tid, name, other_alive))
        if k in self.preempt_at and other_alive:
            self.used.append(k)
            self.sems[1 - tid].release()
            self.sems[tid].acquire()

    def yield_to_other(self):
        """unconditional hand-over (not a preemption of the schedule): used by cooperative stand-ins for real locks,
        whose waiting must be visible to the scheduler"""
        tid = _local_tid.get(threading.get_ident())
        if tid is None:
            return False
        if self.done[1 - tid]:
            return False
        self.sems[1 - tid].release()
        self.sems[tid].acquire()
        return True

    def _body(self, tid, fn, out):
        _local_tid[threading.get_ident()] = tid
        self.sems[tid].acquire()
        try:
            if self.tracer is not None:
                sys.settrace(self.tracer)       # line-granularity scheduling points in selected functions
            out[tid] = ('ok', fn())
        except BaseException as exc:   # noqa
            out[tid] = ('exc', type(exc).__name__, str(exc)[-200:])
        finally:
            if self.tracer is not None:
                sys.settrace(None)
            self.done[tid] = True
            _local_tid.pop(threading.get_ident(), None)
            if not self.done[1 - tid]:
                self.sems[1 - tid].release()

    def run(self, fn0, fn1, timeout=60, copy_context=False, tracer=None):
        out = [None, None]
        self.tracer = tracer
        if copy_context:
            # threads started the way asyncio.to_thread / run_in_executor start them: inside a copy of the
            # starting thread's contextvars context
            import contextvars
            ctxs = [contextvars.copy_context(), contextvars.copy_context()]
            ts = [threading.Thread(target=ctxs[i].run, args=(self._body, i, f, out), daemon=True)
                  for i, f in enumerate((fn0, fn1))]
        else:
            ts = [threading.Thread(target=self._body, args=(i, f, out), daemon=True) for i, f in enumerate((fn0, fn1))]
        for t in ts:
            t.start()
        self.sems[0].release()
        for t in ts:
            t.join(timeout)
            if t.is_alive():
                raise Deadlock(f'thread still alive after {timeout}s; trace tail {self.trace[-5:]}')
        return out


class CoopLock:
    """stand-in for a threading.(R)Lock of the library under the baton scheduler: a thread that finds it held hands
    the baton over until it is free (a real lock would block the only running thread for ever)"""

    def __init__(self, holder):
        self.holder = holder          # [Sched or None]
        self.owner = None
        self.depth = 0

    def __enter__(self):
        me = threading.get_ident()
        while self.owner not in (None, me):
            s = self.holder[0]
            if s is None or not s.yield_to_other():
                raise Deadlock('lock held by a thread that cannot run')
        self.owner = me
        self.depth += 1
        return self

    def __exit__(self, *exc):
        self.depth -= 1
        if self.depth == 0:
            self.owner = None
        return False

    acquire = __enter__

    def release(self):
        self.__exit__()


def explore(run_schedule, bound, on_result, max_schedules=None, first=None):
    """run_schedule(prefix) -> Sched (after running).  Enumerates every schedule with <= bound preemptions.
    Replaying prefix + [i] repeats the execution of `prefix` up to point i (the implementation is
    deterministic under the baton) and then switches; a preemption point that does not exist or at
    which the other thread has finished is not a distinct schedule and is skipped."""
    count = [0]

    def rec(prefix):
        if max_schedules and count[0] >= max_schedules:
            return
        s = run_schedule(prefix)
        count[0] += 1
        if list(s.used) != list(prefix):
            raise RuntimeError(f'schedule diverged while replaying prefix {prefix}: used {s.used}')
        on_result(prefix, s)
        if len(prefix) < bound:
            start = prefix[-1] + 1 if prefix else 0
            for (k, tid, name, other_alive) in list(s.trace):
                if k >= start and other_alive:
                    if not prefix and first is not None and k % first[1] != first[0]:
                        continue        # sharding: this worker owns the first preemption points k = first[0] mod first[1]
                    rec(prefix + [k])
    rec([])
    return count[0]


def selftest():
    """two-thread lost update: x = x + 1 with a scheduling point between read and write"""
    def make():
        box = {'x': 0}
        s = [None]

        def inc():
            v = box['x']
            s[0].point('between')
            box['x'] = v + 1
            return box['x']
        return box, s, inc
    lost = []

    def run_schedule(prefix):
        box, s, inc = make()
        s[0] = Sched(prefix)
        s[0].run(inc, inc)
        s[0].final = box['x']
        return s[0]
    n = explore(run_schedule, 1, lambda p, s: lost.append(p) if s.final != 2 else None)
    return n == 2 and lost == [[0]]
