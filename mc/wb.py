"""Workbook specifications, builders (in-memory / xlsx with stored results), value helpers.

A spec is JSON-able:
  {'sheets': {'S': {'A1': 1, 'B1': '=A1+1', 'D1:E2': {'array': '=A1:B2*2'}}},
   'names': {'nm': ['S', '$A$1:$A$3']}, 'active': 'S', 'calc': {'iterate': True, 'count': 100, 'delta': 0.001}}
Text constants never start with '='.
"""
import io
import numbers
import os
import re
import zipfile
from xml.sax.saxutils import escape

import openpyxl
from openpyxl.workbook.defined_name import DefinedName
from openpyxl.worksheet.formula import ArrayFormula
from openpyxl.utils import get_column_letter, column_index_from_string

ERRORS = ('#NULL!', '#DIV/0!', '#VALUE!', '#REF!', '#NAME?', '#NUM!', '#N/A')


# ----------------------------------------------------------------------------
# values

def kind(v):
    if v is None:
        return 'blank'
    if isinstance(v, bool):
        return 'bool'
    if isinstance(v, str):
        return 'error' if v in ERRORS else 'text'
    if isinstance(v, numbers.Number):
        if isinstance(v, complex):
            return 'complex'
        return 'number'
    if isinstance(v, (tuple, list)):
        return 'array'
    try:
        import numpy as np
        if isinstance(v, np.bool_):
            return 'bool'
    except Exception:
        pass
    return 'other:' + type(v).__name__


def tag(v):
    """Type-tagged canonical form: never conflates 0 / False / 0.0 / None / ''."""
    k = kind(v)
    if k == 'array':
        return ('array', tuple(tag(x) for x in v))
    if k == 'number':
        try:
            return ('number', repr(float(v)))
        except OverflowError:
            return ('number', repr(int(v)))
    if k == 'bool':
        return ('bool', bool(v))
    if k == 'blank':
        return ('blank',)
    if k in ('text', 'error'):
        return (k, str(v))
    return (k, repr(v))


def veq(a, b):
    """Type-strict equality (numbers compare by value; int 1 == float 1.0)."""
    ka, kb = kind(a), kind(b)
    if ka != kb:
        return False
    if ka == 'array':
        return len(a) == len(b) and all(veq(x, y) for x, y in zip(a, b))
    if ka == 'number':
        return a == b or (a != a and b != b)
    return a == b


def vclose(a, b, rel=1e-12, abs_=1e-12):
    ka, kb = kind(a), kind(b)
    if ka != kb:
        return False
    if ka == 'array':
        return len(a) == len(b) and all(vclose(x, y, rel, abs_) for x, y in zip(a, b))
    if ka == 'number':
        if a == b:
            return True
        try:
            return abs(a - b) <= max(abs_, rel * max(abs(a), abs(b)))
        except Exception:
            return False
    return a == b


def show(v):
    return repr(tag(v)) if not isinstance(v, (tuple, list)) else repr([show(x) for x in v])


# ----------------------------------------------------------------------------
# spec helpers

CELL_RE = re.compile(r'^\$?([A-Z]{1,3})\$?(\d+)$')


def split_addr(addr, default_sheet=None):
    """'S!A1' -> ('S', 'A1')"""
    if '!' in addr:
        s, a = addr.rsplit('!', 1)
        if s.startswith("'") and s.endswith("'"):
            s = s[1:-1].replace("''", "'")
        return s, a
    return default_sheet, addr


def cell_rc(coord):
    m = CELL_RE.match(coord)
    return column_index_from_string(m.group(1)), int(m.group(2))


def rc_cell(c, r):
    return f'{get_column_letter(c)}{r}'


def spec_cells(spec):
    """yield (sheet, coord, content) for every plain cell; array members separately via spec_arrays."""
    for sh, cells in spec['sheets'].items():
        for coord, content in cells.items():
            if isinstance(content, dict):
                continue
            yield sh, coord, content


def spec_arrays(spec):
    for sh, cells in spec['sheets'].items():
        for coord, content in cells.items():
            if isinstance(content, dict) and 'array' in content:
                yield sh, coord, content['array']


def is_formula(content):
    return isinstance(content, str) and content.startswith('=')


def used_range(spec, sheet):
    """(max_col, max_row) of the sheet as openpyxl will see it."""
    mc = mr = 1
    for coord, content in spec['sheets'][sheet].items():
        for part in coord.split(':'):
            c, r = cell_rc(part)
            mc, mr = max(mc, c), max(mr, r)
    return mc, mr


def range_cells(rng):
    a, b = rng.split(':')
    c1, r1 = cell_rc(a)
    c2, r2 = cell_rc(b)
    return [[rc_cell(c, r) for c in range(min(c1, c2), max(c1, c2) + 1)]
            for r in range(min(r1, r2), max(r1, r2) + 1)]


REF_RE = re.compile(
    r"(?:(?P<sheet>'(?:[^']|'')+'|[A-Za-z_][A-Za-z0-9_.]*)!)?"
    r"(?P<a>\$?[A-Z]{1,3}\$?\d+|\$?[A-Z]{1,3}(?=:)|\$?\d+(?=:))"
    r"(?::(?P<b>\$?[A-Z]{1,3}\$?\d+|\$?[A-Z]{1,3}|\$?\d+))?"
    r"(?![A-Za-z0-9_(!])")


def formula_refs(formula, sheet, spec):
    """Cells a formula *mentions* (harness-side, independent of pycel's parser).
    Returns a set of 'Sheet!A1' strings; unbounded ranges are clipped to the used range.
    Only for the restricted syntax the harness generates."""
    out = set()
    text = re.sub(r'"(?:[^"]|"")*"', '""', formula)   # drop string literals
    names = spec.get('names', {})
    for nm, (nsheet, nref) in names.items():
        if re.search(r'(?<![A-Za-z0-9_!.])' + re.escape(nm) + r'(?![A-Za-z0-9_(!.])', text):
            out |= _expand(nsheet, nref.replace('$', ''), spec)
            text = re.sub(r'(?<![A-Za-z0-9_!.])' + re.escape(nm) + r'(?![A-Za-z0-9_(!.])', '0', text)
    pos = 0
    while True:
        m = REF_RE.search(text, pos)
        if not m:
            break
        pos = m.end()
        start = m.start()
        if start > 0 and (text[start - 1].isalnum() or text[start - 1] in '_.'):
            continue
        sh = m.group('sheet')
        if sh:
            if sh.startswith("'"):
                sh = sh[1:-1].replace("''", "'")
        else:
            sh = sheet
        a = m.group('a').replace('$', '')
        b = m.group('b')
        ref = a if b is None else a + ':' + b.replace('$', '')
        if b is None and not CELL_RE.match(a):
            continue
        if sh not in spec['sheets']:
            continue
        out |= _expand(sh, ref, spec)
    return out


def _expand(sh, ref, spec):
    mc, mr = used_range(spec, sh)
    if ':' not in ref:
        return {f'{sh}!{ref}'}
    a, b = ref.split(':')

    def corner(x, is_end):
        m = CELL_RE.match(x)
        if m:
            return cell_rc(x)
        if x.isdigit():
            return (mc if is_end else 1), int(x)
        return column_index_from_string(x), (mr if is_end else 1)
    c1, r1 = corner(a, False)
    c2, r2 = corner(b, True)
    c1, c2 = min(c1, c2), max(c1, c2)
    r1, r2 = min(r1, r2), max(r1, r2)
    c2, r2 = min(c2, max(mc, c1)), min(r2, max(mr, r1))
    return {f'{sh}!{rc_cell(c, r)}' for c in range(c1, c2 + 1) for r in range(r1, r2 + 1)}


def spec_deps(spec):
    """direct precedents per formula cell, from the specification text only."""
    deps = {}
    for sh, coord, content in spec_cells(spec):
        if is_formula(content):
            deps[f'{sh}!{coord}'] = formula_refs(content, sh, spec)
    for sh, rng, formula in spec_arrays(spec):
        refs = formula_refs(formula, sh, spec)
        for row in range_cells(rng):
            for c in row:
                deps[f'{sh}!{c}'] = set(refs)
    return deps


def descendants(deps, cell):
    """cells whose value can depend on `cell` (inclusive), by the specification."""
    rev = {}
    for d, ps in deps.items():
        for p in ps:
            rev.setdefault(p, set()).add(d)
    seen, todo = {cell}, [cell]
    while todo:
        x = todo.pop()
        for d in rev.get(x, ()):
            if d not in seen:
                seen.add(d)
                todo.append(d)
    return seen


def all_cells(spec):
    out = []
    for sh, coord, content in spec_cells(spec):
        out.append(f'{sh}!{coord}')
    for sh, rng, formula in spec_arrays(spec):
        for row in range_cells(rng):
            for c in row:
                out.append(f'{sh}!{c}')
    return out


def constant_cells(spec):
    return [f'{sh}!{c}' for sh, c, v in spec_cells(spec) if not is_formula(v)]


def formula_cells(spec):
    return [f'{sh}!{c}' for sh, c, v in spec_cells(spec) if is_formula(v)]


def with_assign(spec, assign):
    """new spec with constants replaced (assign: {'S!A1': value})"""
    if not assign:
        return spec
    new = dict(spec)
    new['sheets'] = {sh: dict(cells) for sh, cells in spec['sheets'].items()}
    for addr, v in assign.items():
        sh, coord = split_addr(addr)
        new['sheets'][sh][coord] = v
    return new


# ----------------------------------------------------------------------------
# builders

def openpyxl_wb(spec):
    wb = openpyxl.Workbook()
    first = True
    for sh in spec['sheets']:
        if first:
            ws = wb.active
            ws.title = sh
            first = False
        else:
            ws = wb.create_sheet(sh)
    for sh, cells in spec['sheets'].items():
        ws = wb[sh]
        for coord, content in cells.items():
            if isinstance(content, dict):
                first_cell = coord.split(':')[0]
                ws[first_cell] = ArrayFormula(coord, content['array'])
            else:
                ws[coord] = content
                if content is None:
                    ws[coord].value = None
    for nm, (nsheet, nref) in spec.get('names', {}).items():
        q = "'" + nsheet.replace("'", "''") + "'" if not nsheet.isalnum() else nsheet
        wb.defined_names[nm] = DefinedName(nm, attr_text=f'{q}!{nref}')
    wb.active = wb.index(wb[spec.get('active') or next(iter(spec['sheets']))])
    calc = spec.get('calc')
    if calc:
        from openpyxl.workbook.properties import CalcProperties
        if calc.get('bare'):
            # iteration switched on and nothing else said (count / delta left to the application's defaults)
            wb.calculation = CalcProperties(iterate=bool(calc.get('iterate')), iterateCount=None, iterateDelta=None)
        else:
            wb.calculation = CalcProperties(iterate=bool(calc.get('iterate')),
                                            iterateCount=calc.get('count', 100),
                                            iterateDelta=calc.get('delta', 0.001))
    return wb


def compile_inmem(spec, assign=None, cycles=None, plugins=None):
    from pycel.excelcompiler import ExcelCompiler
    return ExcelCompiler(excel=openpyxl_wb(with_assign(spec, assign)), cycles=cycles, plugins=plugins)


def scratch_values(spec, assign=None, addrs=None, cycles=None, plugins=None):
    """from-scratch compile + evaluate every cell in address order (the differential oracle)."""
    m = compile_inmem(spec, assign, cycles=cycles, plugins=plugins)
    out = {}
    for a in (addrs or all_cells(spec)):
        try:
            out[a] = ('ok', m.evaluate(a))
        except Exception as exc:     # noqa
            out[a] = ('exc', type(exc).__name__)
    return out


# ----------------------------------------------------------------------------
# xlsx with stored results

def _cell_xml(coord, content, stored, array_ref=None, array_formula=None, array_member=False):
    def val_xml(v):
        k = kind(v)
        if k == 'blank':
            return '', ''
        if k == 'bool':
            return ' t="b"', f'<v>{int(v)}</v>'
        if k == 'error':
            return ' t="e"', f'<v>{escape(v)}</v>'
        if k == 'text':
            return ' t="str"', f'<v>{escape(v)}</v>'
        return '', f'<v>{v!r}</v>'
    if array_formula is not None:
        t, v = val_xml(stored)
        return f'<c r="{coord}"{t}><f t="array" ref="{array_ref}">{escape(array_formula[1:])}</f>{v}</c>'
    if array_member:
        t, v = val_xml(stored)
        return f'<c r="{coord}"{t}>{v}</c>'
    if is_formula(content):
        t, v = val_xml(stored)
        return f'<c r="{coord}"{t}><f>{escape(content[1:])}</f>{v}</c>'
    k = kind(content)
    if k == 'blank':
        return ''
    if k == 'text':
        sp = ' xml:space="preserve"'
        return f'<c r="{coord}" t="inlineStr"><is><t{sp}>{escape(content)}</t></is></c>'
    t, v = val_xml(content)
    return f'<c r="{coord}"{t}>{v}</c>'


def write_xlsx(spec, path, stored):
    """stored: {'S!B1': value} results to store for formula cells (missing -> no <v>)."""
    sheets = list(spec['sheets'])
    ct = ['<?xml version="1.0" encoding="UTF-8" standalone="yes"?>',
          '<Types xmlns="http://schemas.openxmlformats.org/package/2006/content-types">',
          '<Default Extension="rels" ContentType="application/vnd.openxmlformats-package.relationships+xml"/>',
          '<Default Extension="xml" ContentType="application/xml"/>',
          '<Override PartName="/xl/workbook.xml" ContentType="application/vnd.openxmlformats-officedocument.'
          'spreadsheetml.sheet.main+xml"/>']
    for i, _ in enumerate(sheets, 1):
        ct.append(f'<Override PartName="/xl/worksheets/sheet{i}.xml" ContentType="application/vnd.'
                  'openxmlformats-officedocument.spreadsheetml.worksheet+xml"/>')
    ct.append('</Types>')
    rels = ('<?xml version="1.0" encoding="UTF-8" standalone="yes"?>'
            '<Relationships xmlns="http://schemas.openxmlformats.org/package/2006/relationships">'
            '<Relationship Id="rId1" Type="http://schemas.openxmlformats.org/officeDocument/2006/'
            'relationships/officeDocument" Target="xl/workbook.xml"/></Relationships>')
    active = sheets.index(spec.get('active') or sheets[0])
    wbx = ['<?xml version="1.0" encoding="UTF-8" standalone="yes"?>',
           '<workbook xmlns="http://schemas.openxmlformats.org/spreadsheetml/2006/main" '
           'xmlns:r="http://schemas.openxmlformats.org/officeDocument/2006/relationships">',
           f'<bookViews><workbookView activeTab="{active}"/></bookViews>', '<sheets>']
    for i, sh in enumerate(sheets, 1):
        wbx.append(f'<sheet name="{escape(sh, {chr(34): "&quot;"})}" sheetId="{i}" r:id="rId{i}"/>')
    wbx.append('</sheets>')
    if spec.get('names'):
        wbx.append('<definedNames>')
        for nm, (nsheet, nref) in spec['names'].items():
            q = "'" + nsheet.replace("'", "''") + "'" if not nsheet.isalnum() else nsheet
            wbx.append(f'<definedName name="{nm}">{escape(q)}!{nref}</definedName>')
        wbx.append('</definedNames>')
    calc = spec.get('calc')
    if calc:
        if calc.get('bare'):
            wbx.append(f'<calcPr calcId="1" iterate="{int(bool(calc.get("iterate")))}"/>')
        else:
            wbx.append(f'<calcPr calcId="1" iterate="{int(bool(calc.get("iterate")))}" '
                       f'iterateCount="{calc.get("count", 100)}" iterateDelta="{calc.get("delta", 0.001)!r}"/>')
    wbx.append('</workbook>')
    wrels = ['<?xml version="1.0" encoding="UTF-8" standalone="yes"?>',
             '<Relationships xmlns="http://schemas.openxmlformats.org/package/2006/relationships">']
    for i, _ in enumerate(sheets, 1):
        wrels.append(f'<Relationship Id="rId{i}" Type="http://schemas.openxmlformats.org/officeDocument/2006/'
                     f'relationships/worksheet" Target="worksheets/sheet{i}.xml"/>')
    wrels.append('</Relationships>')

    with zipfile.ZipFile(path, 'w', zipfile.ZIP_DEFLATED) as z:
        z.writestr('[Content_Types].xml', '\n'.join(ct))
        z.writestr('_rels/.rels', rels)
        z.writestr('xl/workbook.xml', '\n'.join(wbx))
        z.writestr('xl/_rels/workbook.xml.rels', '\n'.join(wrels))
        for i, sh in enumerate(sheets, 1):
            rows = {}
            for coord, content in spec['sheets'][sh].items():
                if isinstance(content, dict):
                    grid = range_cells(coord)
                    first = True
                    for row in grid:
                        for c in row:
                            st = stored.get(f'{sh}!{c}')
                            if first:
                                x = _cell_xml(c, None, st, array_ref=coord, array_formula=content['array'])
                                first = False
                            else:
                                x = _cell_xml(c, None, st, array_member=True)
                            rows.setdefault(cell_rc(c)[1], []).append((cell_rc(c)[0], x))
                else:
                    x = _cell_xml(coord, content, stored.get(f'{sh}!{coord}'))
                    if x:
                        rows.setdefault(cell_rc(coord)[1], []).append((cell_rc(coord)[0], x))
            body = ['<?xml version="1.0" encoding="UTF-8" standalone="yes"?>',
                    '<worksheet xmlns="http://schemas.openxmlformats.org/spreadsheetml/2006/main"><sheetData>']
            for r in sorted(rows):
                body.append(f'<row r="{r}">' + ''.join(x for _, x in sorted(rows[r])) + '</row>')
            body.append('</sheetData></worksheet>')
            z.writestr(f'xl/worksheets/sheet{i}.xml', '\n'.join(body))
    return path


def compile_xlsx(spec, path, stored, cycles=None, plugins=None):
    from pycel.excelcompiler import ExcelCompiler
    write_xlsx(spec, path, stored)
    return ExcelCompiler(filename=path, cycles=cycles, plugins=plugins)
