"""Known findings: /verif/known_findings.json is committed and never written at run time.

An *open* entry suppresses a violation only if (a) every key of its "match"
dict equals the corresponding field of the violating case (a list value means
"one of") and (b) if it names a "model", the python predicate of that name in
MODELS accepts the case -- the predicate re-derives the exact wrong observation
the defect produces, so a different wrong value on the same input is still a
new VIOLATION.  "fixed" entries suppress nothing.
"""
import json
import os

VERIF = os.path.dirname(os.path.dirname(os.path.abspath(__file__)))

MODELS = {}


def model(fn):
    MODELS[fn.__name__] = fn
    return fn


def load():
    path = os.path.join(VERIF, 'known_findings.json')
    if not os.path.exists(path):
        return []
    with open(path) as f:
        return json.load(f).get('findings', [])


def _field_match(want, have):
    if isinstance(want, list):
        return have in want
    return want == have


def matches(entry, case):
    m = entry.get('match', {})
    for k, want in m.items():
        if k not in case or not _field_match(want, case[k]):
            return False
    name = entry.get('model')
    if name:
        fn = MODELS.get(name)
        if fn is None:
            return False
        try:
            return bool(fn(case))
        except Exception:
            return False
    return True


_OPEN = None


def match_open(case):
    """id of the open known-finding entry (of any property) that this violating case matches, else None"""
    global _OPEN
    if _OPEN is None:
        _OPEN = [e for e in load() if e.get('status') == 'open']
    for e in _OPEN:
        if matches(e, case):
            return e['id']
    return None


def classify(pid, violations):
    entries = [e for e in load() if e.get('property') == pid and e.get('status') == 'open']
    known, new = {}, []
    for case, msg in violations:
        hit = None
        for e in entries:
            if matches(e, case):
                hit = e
                break
        if hit is None:
            new.append((case, msg))
        else:
            known.setdefault(f"{hit['id']}: {hit['what']}", []).append(case)
    return known, new


# ---------------------------------------------------------------------------
# defect models (filled in as findings are recorded)
