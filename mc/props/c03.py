"""C03 -- persisted models are observationally equivalent to the model that was saved."""
import hashlib
import itertools
import json
import os
import shutil
import subprocess
import sys
import tempfile
import time
import threading

from mc import explore, family, wb as W
from mc.runner import Acc, jsonable

ID = 'C03'
LEVEL = 'model_checking'
RULE = ('(A) every item of a content pool (numbers incl. 1e-7/1e22/-0.0, text that looks like yaml/json/number/bool/'
        'null/comment/formula, unicode, multi-line) as a constant and as a formula operand x {yml, json, pkl, yml+pkl} '
        'x {cycles off, on}: every saved cell of the loaded model equals the original (kind + value + sign of zero) and '
        'follows the same set_value/evaluate history; (B) BFS over set_value/evaluate histories with the original and '
        'the loaded model driven in lock-step on the curated workbooks x formats; (C) determinism / idempotence / '
        'extra_data / filename / hash / pickle-rewrite rules on xlsx-backed models incl. a workbook edited between '
        'compile and save; (D) loading on a new thread and in a fresh process. '
        'distinct_nontrivial = distinct (content item or workbook, format, cycles, history) whose loaded model was '
        'compared with the original on at least one formula cell after a write.')
ASSUMPTIONS = ['the in-memory original driven by the same history is the oracle',
               'values read back from yml/json are ruamel scalar subclasses: compared by kind and value, never by type()',
               're-saving a loaded model is compared by parsed content (top-level key order may differ); byte identity is required only for saving the same model twice']
GROUP = ('part', 'verdict', 'defect')

FORMATS = ['yml', 'json', 'pkl', 'yml+pkl']
VERIF_DIR = os.path.dirname(os.path.dirname(os.path.dirname(os.path.abspath(__file__))))

CONTENT = [
    1e-7, 1e22, -0.0, 1 / 3, 0, 1, -1.5, 123456789012, True, False,
    # floats that need 16-17 significant digits, in exponent and in plain notation, and the ends of the float range
    1.234567890123457e-05, 1.234567890123457e+19, 5e-324, 123456789.12345678, 0.1 + 0.2, 1.7976931348623157e308, 2.5e-308,
    9007199254740993, 10 ** 20, -1e-300,
    # long texts: double spaces, tabs and line breaks where a 120-column writer would fold
    ('The quick brown fox jumps over the lazy dog.  ' * 6).strip(), 'x' * 111 + '\tnext line here', 'word ' * 30 + ' end',
    'a  b' * 40, ('0123456789 ' * 11).strip() + '  ' + 'tail', 'y' * 119 + ' ' + 'z' * 5, 'y' * 118 + '  ' + 'z' * 5,
    '- a', 'k: v', '{a: 1}', '[1, 2]', '# c', 'null', '~', 'true', 'yes', 'no', 'on', '1', '1.0', '1e3', '0x10', '.5',
    "'q'", '"q"', ' lead', 'trail ', '', 'é', '日本', 'a\nb', 'a\tb', 'x' * 300, 'a: b: c', '%TAG', '@at', '`bt`',
    '!bang', '&anchor', '*alias', '|', '>', '2001-01-01', '12:30:00', 'a #b', '\\n', 'a\\b', 'NaN', '.inf', '#N/A', '#DIV/0!',
    "'=1+1", "'=SUM(A1:A3)' is the total", "'", "''", "'abc", '"=1+1"',
    '\U0001F600', 'a b', 'a\u0085b', 'a\u2028  b', 'a\u2029b', 'a\x7fb', 'tab\there', 'q"uo\'te', '=1+1', '=A1', '_C_("S!A1")',
]


def vtag(v):
    """kind + value + sign of zero; ruamel scalars are plain subclasses"""
    k = W.kind(v)
    if k == 'number':
        f = float(v)
        return ('number', repr(f))          # repr keeps -0.0
    if k == 'array':
        return ('array', tuple(vtag(x) for x in v))
    if k in ('text', 'error'):
        return (k, str(v))
    if k == 'bool':
        return ('bool', bool(v))
    return (k,)


def content_spec(item):
    cells = {'A1': None if (isinstance(item, str) and item.startswith('=')) else item,
             'B1': '=A1&"|"', 'C1': '=ISNUMBER(A1)', 'D1': '=ISTEXT(A1)', 'E1': '=ISLOGICAL(A1)', 'F1': '=A1=A1',
             'G1': 2, 'H1': '=G1+1'}
    if cells['A1'] is None:
        del cells['A1']
    return {'sheets': {'S': cells}, 'active': 'S'}


def save(m, base, fmt):
    """returns path to load from"""
    if fmt == 'yml+pkl':
        m.to_file(base, file_types=('pkl', 'yml'))
        return base + '.pkl'
    m.to_file(base + '.' + fmt)
    return base + '.' + fmt


def ev(m, a):
    try:
        return ('ok', m.evaluate(a))
    except Exception as exc:
        return ('exc', type(exc).__name__, str(exc)[-160:])


def same(o, l, tol=None):
    if o[0] != l[0]:
        return False
    if o[0] == 'ok':
        if tol is not None:
            return W.vclose(o[1], l[1], rel=0, abs_=tol)
        return vtag(o[1]) == vtag(l[1])
    return o[1] == l[1]


def surrogates(text):
    out = []
    for ch in text:
        if ord(ch) >= 0x10000:
            v = ord(ch) - 0x10000
            out.append(chr(0xD800 + (v >> 10)) + chr(0xDC00 + (v & 0x3FF)))
        else:
            out.append(ch)
    return ''.join(out)


def defect_model(item, fmt, cell, lv):
    """name of the known defect whose exact prediction the observation matches, else None"""
    if not isinstance(item, str) or cell != 'S!A1':
        return None
    if '\x85' in item and fmt != 'json' and lv == ('ok', item.replace('\x85', ' ')):
        return 'nel-folded-to-space'
    if fmt == 'json' and any(ord(c) >= 0x10000 for c in item) and lv == ('ok', surrogates(item)):
        return 'astral-char-as-surrogate-pair'
    if item.startswith('='):
        from mc import feval
        from pycel.excelformula import ExcelFormula
        e = feval.Evaluator()
        try:
            pred = ('ok', e.ctx(ExcelFormula(item, formula_is_python_code=True)))
        except Exception as exc:
            pred = ('exc', type(exc).__name__)
        if pred[0] == lv[0] and (vtag(pred[1]) == vtag(lv[1]) if pred[0] == 'ok' else pred[1] == lv[1]):
            return 'text-starting-with-equals-loaded-as-code'
    return None


def work_content(job):
    items, fmt, cycles = job
    from pycel.excelcompiler import ExcelCompiler
    acc = Acc()
    tmp = tempfile.mkdtemp(prefix='c03a_')
    cells = ['S!A1', 'S!B1', 'S!C1', 'S!D1', 'S!E1', 'S!F1', 'S!G1', 'S!H1']
    try:
        for idx, item in enumerate(items):
            base = dict(kind='content', part='A', fmt=fmt, cycles=cycles, item=repr(item)[:40], item_value=item)
            spec = content_spec(item)
            if cycles:
                spec = dict(spec, calc={'iterate': True, 'count': 20, 'delta': 0.001})
            try:
                m = W.compile_inmem(spec, cycles=True if cycles else None)
                for a in cells:
                    ev(m, a)
                if isinstance(item, str) and item.startswith('='):
                    m.set_value('S!A1', item)      # text that looks like a formula can only enter through set_value
                orig = {a: ev(m, a) for a in cells}
                path = save(m, os.path.join(tmp, f'c{idx}'), fmt)
            except Exception as exc:
                acc.violation(dict(base, verdict='save-raised', exc=type(exc).__name__),
                              f'content {item!r} {fmt} cycles={cycles}: building/saving raised {type(exc).__name__}: {str(exc)[:160]}')
                continue
            acc.add('evaluations')
            acc.add('states')
            try:
                ld = ExcelCompiler.from_file(path)
            except Exception as exc:
                acc.violation(dict(base, verdict='load-raised', exc=type(exc).__name__),
                              f'content {item!r} {fmt} cycles={cycles}: from_file raised {type(exc).__name__}: {str(exc)[:160]}')
                continue
            bad = False
            for a in cells:
                lv = ev(ld, a)
                acc.add('transitions')
                if not same(orig[a], lv):
                    acc.violation(dict(base, verdict='value-differs', cell=a, observed=jsonable(lv), expected=jsonable(orig[a]),
                                       defect=defect_model(item, fmt, a, lv)),
                                  f'content {item!r} saved as {fmt} (cycles={cycles}): loaded {a} = {lv!r} but the original has {orig[a]!r}')
                    bad = True
                    break
            if bad:
                continue
            # saving the loaded model reproduces the same content: constants and code, and the values once more
            if not (isinstance(item, str) and item.startswith('=')):
                try:
                    path2 = save(ld, os.path.join(tmp, f'r{idx}'), fmt)
                    ld2 = ExcelCompiler.from_file(path2)
                except Exception as exc:
                    acc.violation(dict(base, verdict='resave-raised', exc=type(exc).__name__),
                                  f'content {item!r} {fmt} cycles={cycles}: saving / re-loading the loaded model raised '
                                  f'{type(exc).__name__}: {str(exc)[:160]}')
                    continue
                if fmt in ('yml', 'json'):
                    a_, b_ = parsed(path).get('cell_map'), parsed(path2).get('cell_map')
                    if a_ != b_:
                        diff = sorted(k for k in set(a_) | set(b_) if a_.get(k) != b_.get(k))
                        acc.violation(dict(base, verdict='resave-differs', cells=diff, observed=jsonable([b_.get(k) for k in diff]),
                                           expected=jsonable([a_.get(k) for k in diff])),
                                      f'content {item!r} {fmt} cycles={cycles}: saving the loaded model wrote {diff} as '
                                      f'{[b_.get(k) for k in diff]!r}, the first save wrote {[a_.get(k) for k in diff]!r}')
                        continue
                if fmt in ('yml', 'json'):
                    # the loaded model saved in the OTHER text format reads back the same values
                    other = 'json' if fmt == 'yml' else 'yml'
                    try:
                        path3 = save(ld, os.path.join(tmp, f'x{idx}'), other)
                        ld3 = ExcelCompiler.from_file(path3)
                        for a in cells:
                            lv3 = ev(ld3, a)
                            acc.add('transitions')
                            if not same(orig[a], lv3):
                                acc.violation(dict(base, fmt=other, verdict='converted-differs', cell=a, source=fmt, observed=jsonable(lv3),
                                                   expected=jsonable(orig[a]), defect=defect_model(item, other, a, lv3)),
                                              f'content {item!r} saved as {fmt}, loaded, saved as {other} and loaded (cycles={cycles}): '
                                              f'{a} = {lv3!r} but the original has {orig[a]!r}')
                                break
                    except Exception as exc:
                        acc.violation(dict(base, verdict='resave-raised', exc=type(exc).__name__, to=other),
                                      f'content {item!r} {fmt} -> {other} cycles={cycles}: {type(exc).__name__}: {str(exc)[:160]}')
                for a in cells:
                    lv2 = ev(ld2, a)
                    acc.add('transitions')
                    if not same(orig[a], lv2):
                        acc.violation(dict(base, verdict='second-generation-differs', cell=a, observed=jsonable(lv2), expected=jsonable(orig[a]),
                                           defect=defect_model(item, fmt, a, lv2)),
                                      f'content {item!r} saved as {fmt}, loaded, saved and loaded again (cycles={cycles}): {a} = {lv2!r} '
                                      f'but the original has {orig[a]!r}')
                        bad = True
                        break
                if bad:
                    continue
            # follow-up history in lock-step
            for w in (7, 'zz', item):
                for mm in (m, ld):
                    mm.set_value('S!A1', w)
                    mm.set_value('S!G1', 5)
                for a in cells:
                    ov, lv = ev(m, a), ev(ld, a)
                    acc.add('transitions')
                    if not same(ov, lv):
                        acc.violation(dict(base, verdict='history-differs', cell=a, write=jsonable(w), observed=jsonable(lv),
                                           expected=jsonable(ov)),
                                      f'content {item!r} {fmt} cycles={cycles}: after set_value(A1, {w!r}) loaded {a} = {lv!r}, original {ov!r}')
                        bad = True
                        break
                if bad:
                    break
            acc.add('distinct_nontrivial')
        acc.sample(dict(part='A', item=repr(items[0]), fmt=fmt, cycles=cycles, cells=content_spec(items[0])['sheets']))
    finally:
        shutil.rmtree(tmp, ignore_errors=True)
    return acc.result()


# ---------------------------------------------------------------------------------------------- part B
class PB(explore.Problem):
    def __init__(self, fam, fmt, cycles, values, tmp, members=True):
        self.fam, self.fmt, self.cycles, self.tmp = fam, fmt, cycles, tmp
        self.spec = fam['spec']
        if cycles:
            self.spec = dict(self.spec, calc={'iterate': True, 'count': 50, 'delta': 0.001})
        self.cells = list(fam['cells'])
        if not members:
            # array formulas are only reached through their range: the member cells are never brought into the model,
            # so nothing saved refers to the array-formula range
            plain = set(W.constant_cells(fam['spec'])) | set(W.formula_cells(fam['spec'])) | set(fam['inputs'])
            self.cells = [c for c in fam['cells'] if c in plain]
        self.targets = self.cells + fam['ranges'] + fam['unbounded']
        self.ops = [('ev', a) for a in self.targets] + [('set', i, v) for i in fam['inputs'] for v in values]
        self.path = None
        self.compared = 0
        self.plugins = 'mc.plugins' if 'plugins' in fam.get('tags', ()) else None      # a model that uses plugin functions
        m = self.build()
        self.path = save(m, os.path.join(tmp, 'm'), fmt)

    def build(self):
        m = W.compile_inmem(self.spec, cycles=True if self.cycles else None, plugins=self.plugins)
        for a in self.cells + (self.fam['ranges'] if len(self.cells) != len(self.fam['cells']) else []):
            ev(m, a)
        return m

    def new(self):
        from pycel.excelcompiler import ExcelCompiler
        ld = ExcelCompiler.from_file(self.path, plugins=self.plugins) if self.plugins else ExcelCompiler.from_file(self.path)
        return {'o': self.build(), 'l': ld, 'written': False}

    def step(self, st, op):
        if op[0] == 'ev':
            return (ev(st['o'], op[1]), ev(st['l'], op[1]))
        res = []
        for k in ('o', 'l'):
            try:
                st[k].set_value(op[1], op[2])
                res.append(('set',))
            except Exception as exc:
                res.append(('exc', type(exc).__name__, str(exc)[-120:]))
        st['written'] = True
        return tuple(res)

    def check(self, st, hist, op, obs):
        o, l = obs
        if op[0] == 'ev':
            if st['written']:
                self.compared += 1
            if o[0] == 'ok' and not same(o, l):
                return f'evaluate({op[1]}): loaded model gives {l!r}, original {o!r}'
            return None
        if o[0] != l[0]:
            return f'set_value{op[1:]}: loaded model {l!r}, original {o!r}'
        return None

    def canon(self, st):
        a, b = explore.canon_compiler(st['o']), explore.canon_compiler(st['l'])
        if a[0] == 'NOKEY' or b[0] == 'NOKEY':
            return ('NOKEY', '')
        return (a, b)

    def case(self, hist, op, obs):
        return dict(kind='lockstep', part='B', verdict='differs', fmt=self.fmt, cycles=self.cycles, item=self.fam['name'],
                    members=len(self.cells) == len(self.fam['cells']),
                    fam={k: self.fam.get(k) for k in ('name', 'spec', 'ranges', 'unbounded', 'inputs', 'cells', 'tags')},
                    hist=[list(o) for o in hist], op=list(op), observed=jsonable(obs))


def work_lockstep(job):
    fam, fmt, cycles, values, depth, max_states = job[:6]
    members = job[6] if len(job) > 6 else True
    acc = Acc()
    tmp = tempfile.mkdtemp(prefix='c03b_')
    try:
        p = PB(fam, fmt, cycles, values, tmp, members)
        res = explore.bfs(p, depth, acc, max_states=max_states)
        acc.add('states', res['states'])
        acc.add('transitions', res['transitions'])
        acc.add('evaluations', res['transitions'])
        acc.add('distinct_nontrivial', p.compared)
        acc.add('b_jobs')
        acc.add('b_jobs_capped', int(res['capped']))
    except Exception as exc:
        acc.violation(dict(kind='lockstep', part='B', verdict='setup-raised', fmt=fmt, cycles=cycles, item=fam['name'],
                           exc=type(exc).__name__),
                      f"{fam['name']} {fmt} cycles={cycles}: save/load raised {type(exc).__name__}: {str(exc)[:200]}")
    finally:
        shutil.rmtree(tmp, ignore_errors=True)
    return acc.result()


# ---------------------------------------------------------------------------------------------- part C
def file_md5(p):
    return hashlib.md5(open(p, 'rb').read()).hexdigest() if os.path.exists(p) else None


def parsed(path):
    from ruamel.yaml import YAML
    with open(path) as f:
        d = YAML().load(f)
    return json.loads(json.dumps(d, default=str))


def work_rules(job):
    fam, cycles = job
    from pycel.excelcompiler import ExcelCompiler
    acc = Acc()
    tmp = tempfile.mkdtemp(prefix='c03c_')
    base = dict(kind='rules', part='C', cycles=cycles, item=fam['name'], fmt=None,
                fam={k: fam[k] for k in ('name', 'spec', 'ranges', 'unbounded', 'inputs', 'cells')})

    def bad(verdict, msg, **kw):
        acc.violation(dict(base, verdict=verdict, **kw), f"{fam['name']} cycles={cycles}: {msg}")
    try:
        spec = fam['spec']
        if cycles == 'bare':
            spec = dict(spec, calc={'iterate': True, 'bare': True})       # iteration on, count / delta not given
        elif cycles:
            spec = dict(spec, calc={'iterate': True, 'count': 50, 'delta': 0.001})
        stored = {a: v[1] for a, v in W.scratch_values(fam['spec']).items() if v[0] == 'ok'}
        xlsx = os.path.join(tmp, 'book.xlsx')
        W.write_xlsx(spec, xlsx, stored)
        # compiled from a RELATIVE workbook path (the name the user gave must survive the trip as given)
        cwd = os.getcwd()
        os.chdir(tmp)
        try:
            m = ExcelCompiler(filename='book.xlsx', cycles=None)
        finally:
            pass
        for a in fam['cells']:
            ev(m, a)
        m.extra_data = {'user_key': 'user value', 'user_num': 3, 'user_list': [1, 'a']}
        for fmt in ('yml', 'json'):
            acc.add('evaluations')
            acc.add('states')
            p = os.path.join(tmp, 'out.' + fmt)
            m.to_file(p)
            h1 = file_md5(p)
            m.to_file(p)
            if file_md5(p) != h1:
                bad('save-not-deterministic', f'saving the unchanged model twice changed {fmt} bytes', fmt=fmt)
            ld = ExcelCompiler.from_file(p)
            acc.add('transitions')
            if bool(ld.cycles) != bool(cycles):
                bad('cycles-lost', f'{fmt}: loaded cycles={ld.cycles!r}', fmt=fmt)
            if cycles and dict(ld.cycles) != dict(m.cycles):
                bad('cycles-lost', f'{fmt}: loaded cycles={dict(ld.cycles)!r} original {m.cycles!r}', fmt=fmt)
            if ld.filename != m.filename:
                bad('filename-lost', f'{fmt}: loaded filename {ld.filename!r} original {m.filename!r}', fmt=fmt)
            if ld._excel_file_md5_digest != m._excel_file_md5_digest or ld.hash_matches != m.hash_matches:
                bad('hash-lost', f'{fmt}: loaded hash {ld._excel_file_md5_digest!r}/{ld.hash_matches} original '
                    f'{m._excel_file_md5_digest!r}/{m.hash_matches}', fmt=fmt)
            for k, v in (('user_key', 'user value'), ('user_num', 3), ('user_list', [1, 'a'])):
                got = (ld.extra_data or {}).get(k)
                if json.loads(json.dumps(got, default=str)) != v:
                    bad('extra-data-lost', f'{fmt}: extra_data[{k!r}] = {got!r} after the trip', fmt=fmt)
            # an address without a sheet means the active sheet, on the loaded model as on the original
            act = spec.get('active') or list(spec['sheets'])[0]
            for a in [c for c in fam['cells'] if c.startswith(act + '!')][:2]:
                bare = a.split('!', 1)[1]
                ov, lv = ev(m, bare), ev(ld, bare)
                acc.add('transitions')
                if ov[0] == 'ok' and not same(ov, lv):
                    bad('sheetless-differs', f'{fmt}: evaluate({bare!r}) (no sheet) on the loaded model gives {lv!r}, the original {ov!r}',
                        fmt=fmt, cell=bare, observed=jsonable(lv), expected=jsonable(ov),
                        no_active_sheet_after_load=(lv[0] == 'exc' and lv[1] == 'AttributeError' and 'get_active_sheet_name' in lv[2]))
                    break
            # saving the loaded model reproduces the same content
            p2 = os.path.join(tmp, 'again.' + fmt)
            ld.to_file(p2)
            a, b = parsed(p), parsed(p2)
            if a != b:
                diff = [k for k in set(a) | set(b) if a.get(k) != b.get(k)]
                bad('resave-differs', f'{fmt}: saving the loaded model changed {diff}', fmt=fmt)
            # the workbook is edited after compiling: the saved hash must stay the compile-time one
        # pickle rewrite rule
        acc.add('evaluations')
        pb = os.path.join(tmp, 'pk')
        m.to_file(pb, file_types=('pkl', 'yml'))
        t1 = os.stat(pb + '.pkl').st_mtime_ns        # (the time stamp itself is left alone: the library may compare it)
        time.sleep(0.002)
        m.to_file(pb, file_types=('pkl', 'yml'))
        if os.stat(pb + '.pkl').st_mtime_ns != t1:
            bad('pickle-rewritten', 'pickle next to an unchanged text file was rewritten', fmt='yml+pkl')
        if fam['inputs'] and fam['inputs'][0] in m.cell_map:
            m.set_value(fam['inputs'][0], 987)
            time.sleep(0.002)
            m.to_file(pb, file_types=('pkl', 'yml'))
            if os.stat(pb + '.pkl').st_mtime_ns == t1:
                bad('pickle-stale', 'pickle next to a changed text file was not rewritten', fmt='yml+pkl')
            ld = ExcelCompiler.from_file(pb + '.pkl')
            got = ev(ld, fam['inputs'][0])
            if not same(('ok', 987), got):
                bad('pickle-stale', f'pickle reloaded after a change gives {got!r} for the changed input', fmt='yml+pkl')
            # a text-only save after a pkl+yml save: from_file by the bare name must give the LATEST save
            m.set_value(fam['inputs'][0], 321)
            time.sleep(0.002)
            m.to_file(pb, file_types=('yml',))
            got = ev(ExcelCompiler.from_file(pb), fam['inputs'][0])
            if not same(('ok', 321), got):
                bad('pickle-stale', f'after save(pkl+yml), write, save(yml): from_file by name without extension gives {got!r} for the '
                    f'changed input, the latest save has 321', fmt='yml+pkl', how='name after text-only save')
            # a text-only save in between refreshes the text file: the next pkl+yml save must refresh the pickle too
            m.set_value(fam['inputs'][0], 654)
            m.to_file(pb, file_types=('yml',))
            m.to_file(pb, file_types=('pkl', 'yml'))
            for how, target in (('name without extension', pb), ('pickle', pb + '.pkl'), ('text', pb + '.yml')):
                got = ev(ExcelCompiler.from_file(target), fam['inputs'][0])
                if not same(('ok', 654), got):
                    bad('pickle-stale', f'after save(pkl+yml), write, save(yml), save(pkl+yml): from_file by {how} gives {got!r} '
                        f'for the changed input, the saved model has 654', fmt='yml+pkl', how=how)
        # workbook edited between compile and save
        acc.add('evaluations')
        m2 = ExcelCompiler(filename=xlsx)
        for a in fam['cells']:
            ev(m2, a)
        with open(xlsx, 'ab') as f:
            f.write(b'\0')
        want_match = m2.hash_matches       # False now
        for fmt in ('yml', 'json', 'pkl'):
            p = os.path.join(tmp, 'edited.' + fmt)
            m2.to_file(p)
            ld = ExcelCompiler.from_file(p)
            acc.add('transitions')
            if ld.hash_matches != want_match or ld._excel_file_md5_digest != m2._excel_file_md5_digest:
                bad('hash-lost', f'{fmt}: workbook edited after compile: original hash_matches={want_match}, loaded '
                    f'{ld.hash_matches}', fmt=fmt)
        acc.add('distinct_nontrivial')
        acc.sample(dict(part='C', workbook=fam['name'], cycles=cycles))
        os.chdir(cwd)
    except Exception as exc:
        import traceback
        bad('rules-raised', f'{type(exc).__name__}: {str(exc)[:200]} {traceback.format_exc()[-300:]}', exc=type(exc).__name__)
    finally:
        try:
            os.chdir(VERIF_DIR)
        except Exception:
            pass
        shutil.rmtree(tmp, ignore_errors=True)
    return acc.result()


# ---------------------------------------------------------------------------------------------- part C2: save histories
SAVE_TYPES = [('yml',), ('json',), ('pkl',), ('pkl', 'yml'), ('pkl', 'json')]
SAVE_OPS = [('set', 5), ('set', 6), ('ev',)] + [('save', t) for t in SAVE_TYPES]


def work_saves(job):
    """every history (depth 4) of {write the input, compile a further cell lazily, to_file with each combination of file
    types}: after each save, from_file by the bare name and by each file name just written must give the model as it was
    saved -- the input's value, the formulas over it, and every cell the model held at that save"""
    k0, m, depth = job
    from pycel.excelcompiler import ExcelCompiler
    acc = Acc()
    if isinstance(depth, list):
        hists = [tuple((o[0], tuple(o[1]) if isinstance(o[1], list) else o[1]) if len(o) > 1 else tuple(o) for o in depth)]
    elif depth == 'patterns':
        # three saves with a write before each: every combination of file types, the third write going back to the first
        # value (the text then equals the one of the first save) or on to a new one
        hists = [(('set', 5), ('save', t1), ('set', 6), ('save', t2), ('set', v3), ('save', t3))
                 for t1 in SAVE_TYPES for t2 in SAVE_TYPES for t3 in SAVE_TYPES for v3 in (5, 7)]
        hists += [(('save', t1), ('ev',), ('save', t2), ('set', 6), ('save', t3)) for t1 in SAVE_TYPES for t2 in SAVE_TYPES for t3 in SAVE_TYPES]
    else:
        hists = itertools.product(SAVE_OPS, repeat=depth)
    tmp = tempfile.mkdtemp(prefix='c03s_')
    spec = {'sheets': {'S': {'A1': 1, 'B1': '=A1+1', 'C1': '=B1*2', 'D1': '=A1&"|"'}}, 'active': 'S'}
    try:
        n = 0
        for hist in hists:
            n += 1
            if n % m != k0 or not any(o[0] == 'save' for o in hist):
                continue
            acc.add('states')
            d = os.path.join(tmp, f'h{n}')
            os.makedirs(d)
            base = os.path.join(d, 'model')
            mdl = W.compile_inmem(spec)
            mdl.evaluate('S!B1')
            a1, have_c = 1, False
            for i, op in enumerate(hist):
                acc.add('transitions')
                if op[0] == 'set':
                    mdl.set_value('S!A1', op[1])
                    a1 = op[1]
                    continue
                if op[0] == 'ev':
                    mdl.evaluate('S!C1')
                    mdl.evaluate('S!D1')
                    have_c = True
                    continue
                time.sleep(0.003)          # successive saves get distinct time stamps
                try:
                    mdl.to_file(base, file_types=op[1])
                except Exception as exc:
                    acc.violation(dict(kind='saves', part='C2', verdict='save-raised', hist=jsonable(hist[:i + 1]), exc=type(exc).__name__),
                                  f'history {list(hist[:i + 1])}: to_file raised {type(exc).__name__}: {str(exc)[:150]}')
                    break
                acc.add('evaluations')
                want = {'S!A1': a1, 'S!B1': a1 + 1}
                if have_c:
                    want.update({'S!C1': (a1 + 1) * 2, 'S!D1': f'{a1}|'})
                bad = None
                for target in [base] + [f'{base}.{t}' for t in op[1]]:
                    try:
                        ld = ExcelCompiler.from_file(target)
                        got = {a: ev(ld, a) for a in want}
                    except Exception as exc:
                        bad = (target, f'from_file raised {type(exc).__name__}: {str(exc)[:120]}')
                        break
                    wrong = {a: got[a] for a in want if not same(('ok', want[a]), got[a])}
                    if wrong:
                        bad = (target, f'gives {wrong}, the model saved last has {want}')
                        break
                if bad:
                    how = 'bare name' if bad[0] == base else os.path.splitext(bad[0])[1][1:]
                    acc.violation(dict(kind='saves', part='C2', verdict='stale-or-incomplete-load', hist=jsonable(hist[:i + 1]), how=how),
                                  f'history {list(hist[:i + 1])} (model starts with A1=1, B1 evaluated): from_file({os.path.basename(bad[0])!r}) {bad[1]}')
                    break
            acc.add('distinct_nontrivial', int(sum(o[0] == 'save' for o in hist) > 1))
            shutil.rmtree(d, ignore_errors=True)
    finally:
        shutil.rmtree(tmp, ignore_errors=True)
    return acc.result()


# ---------------------------------------------------------------------------------------------- part D
def load_and_dump(path, cells):
    """used on a new thread and by the fresh process"""
    from pycel.excelcompiler import ExcelCompiler
    try:
        m = ExcelCompiler.from_file(path)
    except Exception as exc:
        return {'load': ['exc', type(exc).__name__, str(exc)[-200:]]}
    out = {}
    for a in cells:
        r = ev(m, a)
        out[a] = [r[0], repr(vtag(r[1])) if r[0] == 'ok' else r[1]]
    try:
        m.set_value(cells[0], 3)
        out['after-set'] = [repr(vtag(m.evaluate(c))) if True else None for c in cells[:0]] or 'ok'
        for a in cells:
            r = ev(m, a)
            out['set:' + a] = [r[0], repr(vtag(r[1])) if r[0] == 'ok' else r[1]]
    except Exception as exc:
        out['after-set'] = ['exc', type(exc).__name__, str(exc)[-200:]]
    return out


CYCLE_SPEC = {'sheets': {'S': {'B1': 1, 'B2': 10, 'A1': '=0.5*A2+B1', 'A2': '=0.25*A1+B2', 'C1': '=A1+A2'}}, 'active': 'S',
              'calc': {'iterate': True, 'count': 100, 'delta': 1e-9}}


def work_context(job):
    name, spec, cells, fmt, cycles, context = job
    acc = Acc()
    tmp = tempfile.mkdtemp(prefix='c03d_')
    base = dict(kind='context', part='D', fmt=fmt, cycles=cycles, item=name, context=context, spec=spec, cells=cells)
    try:
        m = W.compile_inmem(spec, cycles=True if cycles else None)
        for a in cells:
            ev(m, a)
        path = save(m, os.path.join(tmp, 'm'), fmt)
        want = {}
        for a in cells:
            r = ev(m, a)
            want[a] = [r[0], repr(vtag(r[1])) if r[0] == 'ok' else r[1]]
        m.set_value(cells[0], 3)
        for a in cells:
            r = ev(m, a)
            want['set:' + a] = [r[0], repr(vtag(r[1])) if r[0] == 'ok' else r[1]]
        if context == 'thread':
            box = {}
            t = threading.Thread(target=lambda: box.update(r=load_and_dump(path, cells)))
            t.start()
            t.join()
            got = box.get('r', {'load': ['exc', 'thread died', '']})
        else:
            env = dict(os.environ)
            r = subprocess.run([sys.executable, '-m', 'mc.fresh', path, json.dumps(cells)], capture_output=True,
                               text=True, env=env, timeout=120)
            try:
                got = json.loads(r.stdout.strip().splitlines()[-1])
            except Exception:
                got = {'load': ['exc', 'fresh process failed', (r.stderr or r.stdout)[-300:]]}
        acc.add('evaluations')
        acc.add('states')
        acc.add('transitions', len(cells) * 2)
        acc.add('distinct_nontrivial')
        if 'load' in got:
            acc.violation(dict(base, verdict='load-raised', exc=got['load'][1]),
                          f"{name} {fmt} cycles={cycles}: from_file on a {context} raised {got['load'][1]}: {got['load'][2]}")
        else:
            for k, v in want.items():
                g = got.get(k)
                if cycles and g and v and g[0] == v[0] == 'ok' and g[1].startswith("('number'") and v[1].startswith("('number'"):
                    import ast
                    if abs(float(ast.literal_eval(g[1])[1]) - float(ast.literal_eval(v[1])[1])) <= 1e-6:
                        continue
                if g != v:
                    acc.violation(dict(base, verdict='value-differs', cell=k, observed=got.get(k), expected=v),
                                  f"{name} {fmt} cycles={cycles} loaded on a {context}: {k} = {got.get(k)!r}, original {v!r}")
                    break
        acc.sample(dict(part='D', workbook=name, fmt=fmt, cycles=cycles, context=context))
    except Exception as exc:
        acc.violation(dict(base, verdict='setup-raised', exc=type(exc).__name__),
                      f'{name} {fmt} cycles={cycles} {context}: {type(exc).__name__}: {str(exc)[:200]}')
    finally:
        shutil.rmtree(tmp, ignore_errors=True)
    return acc.result()


def run(ctx):
    fams = family.curated()
    # A
    jobs = []
    k = ctx.seed % len(CONTENT)
    items = CONTENT[k:] + CONTENT[:k]
    for fmt in FORMATS:
        for cyc in (False, True):
            for c in range(4):
                part = items[c::4]
                jobs.append((part, fmt, cyc))
    ctx.pmap(work_content, jobs, timeout=1200)
    # B
    vals = [7, None, False, 't', 2.5] if ctx.thorough else [7, None, 't']
    jobs = []
    for f in fams:
        for fmt in FORMATS:
            for cyc in ((False, True) if ctx.thorough else (False,)):
                jobs.append((f, fmt, cyc, vals, 3 if ctx.thorough or fmt in ('yml', 'pkl') else 2, 12000))
        if not ctx.thorough:
            jobs.append((f, 'yml', True, vals[:2], 2, 12000))
        if 'cse' in f.get('tags', ()):
            for fmt in ('yml', 'json', 'pkl'):
                jobs.append((f, fmt, False, vals[:2], 3, 12000, False))
    # a workbook whose formulas call plugin functions, one of them inside a range that is saved
    pf = dict(name='plugin_range', spec=family.S({'A1': 1, 'A2': '=VTICK(1,A1)*3', 'B1': '=SUM(A1:A2)', 'C1': '=VTICK(2,B1)+1'}),
              ranges=['S!A1:A2'], unbounded=[], inputs=['S!A1'], cells=['S!A1', 'S!A2', 'S!B1', 'S!C1'], tags=['plugins'])
    for fmt in FORMATS:
        jobs.append((pf, fmt, False, vals[:2], 3, 12000))
    # a computed reference (OFFSET) as a member of a saved plain range
    of = dict(name='offset_member', spec=family.S({'A1': 1, 'A2': 2, 'A3': 3, 'E1': 0, 'B1': '=OFFSET(A1,E1,0)', 'B2': '=A2*10', 'B3': '=A3*10',
                                                   'C1': '=SUM(B1:B3)'}),
              ranges=['S!B1:B3'], unbounded=[], inputs=['S!A1', 'S!A2'], cells=['S!A1', 'S!A2', 'S!A3', 'S!E1', 'S!B1', 'S!B2', 'S!B3', 'S!C1'], tags=[])
    for fmt in ('pkl', 'yml'):
        jobs.append((of, fmt, False, vals[:2], 3, 12000))
        jobs.append((of, fmt, False, vals[:2], 3, 12000, False))
    ctx.pmap(work_lockstep, jobs, timeout=3000)
    # C
    ctx.pmap(work_rules, [(f, cyc) for f in fams for cyc in (False, True)] + [(f, 'bare') for f in fams[:6]], timeout=1200)
    ctx.pmap(work_saves, [(k, 8, 5 if ctx.thorough else 4) for k in range(8)] + [(k, 8, 'patterns') for k in range(8)], timeout=3000)
    # D
    jobs = []
    chosen = fams if ctx.thorough else [f for f in fams if f['name'] in ('chain', 'fan_range', 'cse', 'unbounded', 'names')]
    for f in chosen:
        for fmt in ('yml', 'json', 'pkl'):
            for cyc in (False, True):
                spec = dict(f['spec'], calc={'iterate': True, 'count': 50, 'delta': 0.001}) if cyc else f['spec']
                cells = [c for c in f['inputs'][:1]] + [c for c in f['cells'] if c not in f['inputs'][:1]]
                jobs.append((f['name'], spec, cells, fmt, cyc, 'thread'))
                if ctx.thorough or f['name'] in ('chain', 'fan_range', 'cse'):
                    jobs.append((f['name'], spec, cells, fmt, cyc, 'process'))
    for fmt in ('yml', 'json', 'pkl'):
        for context in ('thread', 'process'):
            jobs.append(('cycle2', CYCLE_SPEC, ['S!B1', 'S!B2', 'S!A1', 'S!A2', 'S!C1'], fmt, True, context))
    ctx.pmap(work_context, jobs, timeout=1200)
    ctx.counts['traces_validated_against_impl'] = ctx.counts.get('transitions', 0)
    ctx.extra['content_items'] = len(CONTENT)
    ctx.extra['exhaustive'] = ctx.counts.get('b_jobs_capped', 0) == 0


def replay(case):
    acc = Acc()
    if case['part'] == 'A':
        r = work_content(([case['item_value']], case['fmt'], case['cycles']))
    elif case['part'] == 'B':
        tmp = tempfile.mkdtemp(prefix='c03r_')
        try:
            p = PB(case['fam'], case['fmt'], case['cycles'], [], tmp, case.get('members', True))
            st = p.new()
            lines = []
            for o in [tuple(x) for x in case['hist']]:
                lines.append(f'  {o} -> {p.step(st, o)!r}')
            op = tuple(case['op'])
            obs = p.step(st, op)
            msg = p.check(st, (), op, obs)
            lines.append(f'  {op} -> {obs!r}\n  verdict: {msg or "loaded model agrees with the original"}')
            return bool(msg), '\n'.join(lines)
        finally:
            shutil.rmtree(tmp, ignore_errors=True)
    elif case['part'] == 'C2':
        r = work_saves((0, 1, case['hist']))
    elif case['part'] == 'C':
        r = work_rules((case['fam'], case['cycles']))
    else:
        r = work_context((case['item'], case['spec'], case['cells'], case['fmt'], case['cycles'], case['context']))
    hits = [m for c, m in r['violations'] if c.get('verdict') == case.get('verdict')]
    return bool(hits), '\n'.join(hits[:3]) or 'no violation'
