"""C05 -- one value per cell whatever the first-evaluation order and access path."""
import itertools
import os
import shutil
import tempfile

from mc import explore, family, wb as W
from mc.runner import Acc, jsonable

ID = 'C05'
LEVEL = 'model_checking'
RULE = ('BFS over histories of evaluate(access path) on the real compiler (paths: every cell, every rectangle of the '
        'used area, unbounded column/row/multi-column forms, list/tuple/generator of addresses, sheet-less address), '
        'states deduplicated by canonical key (= which nodes are built/cached); every element of every returned '
        'structure compared type-strictly with the value of that cell in one fixed reference order on a fresh model; '
        'each evaluate is repeated once and must return the same; plus literal enumeration of all permutations of '
        'first-evaluation order of the formula cells; plus BFS over histories that also write (set_value on inputs, '
        'override of a formula cell, recalculate) with the invariant that evaluate(range) agrees with its member cells '
        'in every state. distinct_nontrivial = transitions whose path covered at least '
        'one formula cell that was not yet cached (a first evaluation through that path).')
ASSUMPTIONS = ['reference = evaluate(cell) cell by cell in address order on a fresh in-memory compile',
               'shape trimming as documented: n x 1 and 1 x n ranges return flat tuples']


def rectangles(mc_, mr):
    for c1 in range(1, mc_ + 1):
        for c2 in range(c1, mc_ + 1):
            for r1 in range(1, mr + 1):
                for r2 in range(r1, mr + 1):
                    if (c1, r1) != (c2, r2):
                        yield c1, r1, c2, r2


def trim(grid):
    grid = tuple(tuple(r) for r in grid)
    if len(grid[0]) == 1:
        grid = tuple(r[0] for r in grid)
    if len(grid) == 1:
        grid = grid[0]
    return grid


class P(explore.Problem):
    def __init__(self, fam, origin, tmp, path_limit=None):
        self.fam, self.spec, self.origin, self.tmp = fam, fam['spec'], origin, tmp
        self.paths = {}       # name -> (kind, payload, expected-structure-of-addresses)
        spec = self.spec
        active = spec.get('active') or next(iter(spec['sheets']))
        for sh in spec['sheets']:
            mc_, mr = W.used_range(spec, sh)
            for c in range(1, mc_ + 1):
                for r in range(1, mr + 1):
                    a = f'{sh}!{W.rc_cell(c, r)}'
                    self.paths['cell ' + a] = ('addr', a, a)
                    if sh == active:
                        self.paths['sheetless ' + W.rc_cell(c, r)] = ('addr', W.rc_cell(c, r), a)
            for c1, r1, c2, r2 in rectangles(mc_, mr):
                a = f'{sh}!{W.rc_cell(c1, r1)}:{W.rc_cell(c2, r2)}'
                grid = [[f'{sh}!{W.rc_cell(c, r)}' for c in range(c1, c2 + 1)] for r in range(r1, r2 + 1)]
                self.paths['range ' + a] = ('addr', a, trim(grid))
                if sh == active and (c1, r1) == (1, 1) and (c2 == mc_ or r2 == mr):
                    self.paths['sheetless range ' + a] = ('addr', a.split('!')[1], trim(grid))
            if sh == active:
                grid = [[f'{sh}!A{r}'] for r in range(1, mr + 1)]
                self.paths['sheetless col A:A'] = ('addr', 'A:A', trim(grid))
                grid = [[f'{sh}!{W.rc_cell(c, 1)}' for c in range(1, mc_ + 1)]]
                self.paths['sheetless row 1:1'] = ('addr', '1:1', trim(grid))
            for c in range(1, mc_ + 1):
                L = W.get_column_letter(c)
                grid = [[f'{sh}!{L}{r}'] for r in range(1, mr + 1)]
                self.paths[f'col {sh}!{L}:{L}'] = ('addr', f'{sh}!{L}:{L}', trim(grid))
            if mc_ >= 2:
                grid = [[f'{sh}!{W.rc_cell(c, r)}' for c in (1, 2)] for r in range(1, mr + 1)]
                self.paths[f'cols {sh}!A:B'] = ('addr', f'{sh}!A:B', trim(grid))
            for r in range(1, mr + 1):
                grid = [[f'{sh}!{W.rc_cell(c, r)}' for c in range(1, mc_ + 1)]]
                self.paths[f'row {sh}!{r}:{r}'] = ('addr', f'{sh}!{r}:{r}', trim(grid))
        cells = fam['cells']
        self.paths['list all'] = ('list', list(cells), list(cells))
        self.paths['tuple rev'] = ('tuple', list(reversed(cells)), tuple(reversed(cells)))
        self.paths['generator'] = ('gen', list(cells[::2]), tuple(cells[::2]))
        if fam['ranges']:
            self.paths['list mixed'] = ('list', [fam['ranges'][0], cells[-1]], None)
        names = sorted(self.paths)
        if path_limit and len(names) > path_limit:
            # keep every non-rectangle path and an evenly spread subset of rectangles (quick tier only)
            rect = [n for n in names if n.startswith('range ')]
            other = [n for n in names if not n.startswith('range ')]
            step = max(1, len(rect) // max(1, path_limit - len(other)))
            names = other + rect[::step]
        self.ops = [('ev', n) for n in names]
        self.refvals = None
        self.path = None
        self.first_evals = 0
        if origin == 'xlsx':
            stored = {a: v[1] for a, v in W.scratch_values(spec).items() if v[0] == 'ok'}
            self.path = os.path.join(tmp, 'c05.xlsx')
            W.write_xlsx(spec, self.path, stored)

    def reference(self):
        if self.refvals is None:
            m = W.compile_inmem(self.spec)
            ref = {}
            addrs = []
            for sh in self.spec['sheets']:
                mc_, mr = W.used_range(self.spec, sh)
                addrs += [f'{sh}!{W.rc_cell(c, r)}' for r in range(1, mr + 1) for c in range(1, mc_ + 1)]
            for a in sorted(addrs):
                try:
                    ref[a] = ('ok', m.evaluate(a))
                except Exception as exc:
                    ref[a] = ('exc', type(exc).__name__)
            self.refvals = ref
        return self.refvals

    def new(self):
        from pycel.excelcompiler import ExcelCompiler
        if self.origin == 'inmem':
            return {'m': W.compile_inmem(self.spec)}
        return {'m': ExcelCompiler(filename=self.path)}

    def _call(self, m, kind, payload):
        if kind == 'addr':
            return m.evaluate(payload)
        if kind == 'list':
            return m.evaluate(list(payload))
        if kind == 'tuple':
            return m.evaluate(tuple(payload))
        return m.evaluate(a for a in payload)

    def step(self, st, op):
        kind, payload, _ = self.paths[op[1]]
        m = st['m']
        try:
            n_unc = sum(1 for c in m.cell_map.values() if c.formula and c.value is None)
            n_cells = len(m.cell_map)
        except Exception:
            n_unc = n_cells = -1
        try:
            v1 = self._call(m, kind, payload)
        except Exception as exc:
            return ('exc', type(exc).__name__, str(exc)[-200:])
        try:
            v2 = self._call(m, kind, payload)
        except Exception as exc:
            return ('exc2', type(exc).__name__, str(exc)[-200:])
        try:
            grew = len(m.cell_map) != n_cells or n_unc != sum(
                1 for c in m.cell_map.values() if c.formula and c.value is None)
        except Exception:
            grew = False
        return ('ok', v1, v2, grew)

    def expected(self, shape):
        ref = self.reference()
        if isinstance(shape, str):
            r = ref[shape]
            return r[1] if r[0] == 'ok' else explore  # sentinel: unjudged
        return type(shape)(self.expected(s) for s in shape) if isinstance(shape, (list, tuple)) else shape

    def check(self, st, hist, op, obs):
        kind, payload, shape = self.paths[op[1]]
        if obs[0] in ('exc', 'exc2'):
            if shape is not None and _has_sentinel(self.expected(shape)):
                return None     # a cell on the path cannot be evaluated in the reference either: not judged
            return f'evaluate({payload!r}) raised {obs[1]}: {obs[2]}'
        if obs[3]:
            self.first_evals += 1
        if not W.veq(obs[1], obs[2]):
            return f'evaluate({payload!r}) returned {W.show(obs[1])} and then {W.show(obs[2])} when repeated'
        if shape is None:
            return None
        exp = self.expected(shape)
        if _has_sentinel(exp):
            return None
        if kind == 'gen':
            exp = tuple(exp)
        if not W.veq(_norm(obs[1]), _norm(exp)):
            return (f'evaluate({payload!r}) = {W.show(obs[1])} but cell-by-cell reference values are {W.show(exp)}')
        if kind in ('list', 'tuple') and type(obs[1]) is not (list if kind == 'list' else tuple):
            return f'evaluate of a {kind} returned a {type(obs[1]).__name__}'
        return None

    def canon(self, st):
        return explore.canon_compiler(st['m'])

    def case(self, hist, op, obs):
        return dict(kind='paths', wb=self.fam['name'], origin=self.origin, fam=_strip(self.fam),
                    hist=[list(o) for o in hist], op=list(op), path=jsonable(self.paths[op[1]][:2]),
                    exc=obs[1] if obs[0].startswith('exc') else None, observed=jsonable(obs))


def _has_sentinel(x):
    if x is explore:
        return True
    if isinstance(x, (list, tuple)):
        return any(_has_sentinel(y) for y in x)
    return False


def _norm(x):
    if isinstance(x, list):
        return tuple(_norm(y) for y in x)
    if isinstance(x, tuple):
        return tuple(_norm(y) for y in x)
    return x


def _strip(fam):
    return {k: fam[k] for k in ('name', 'spec', 'ranges', 'unbounded', 'inputs', 'cells')}


def work(job):
    fam, origin, depth, max_states, path_limit, shard = job
    acc = Acc()
    tmp = tempfile.mkdtemp(prefix='c05_')
    try:
        p = P(fam, origin, tmp, path_limit)
        res = explore.bfs(p, depth, acc, max_states=max_states, shard=shard)
        for k in ('states', 'transitions'):
            acc.add(k, res[k])
        acc.add('evaluations', res['transitions'] * 2)
        acc.add('traces_validated_against_impl', res['transitions'])
        acc.add('distinct_nontrivial', p.first_evals)
        acc.add('jobs')
        acc.add('jobs_fixpoint', int(res['fixpoint']))
        acc.add('jobs_capped', int(res['capped']))
        acc.add(f'depth_completed_{res["depth_completed"]}')
        acc.add('access_paths', len(p.ops) if not shard or shard[0] == 0 else 0)
        for a, v in (p.refvals or {}).items():
            acc.outcome(repr((a, W.tag(v[1]) if v[0] == 'ok' else v)))
        if fam['name'] == 'cse' and origin == 'inmem' and (not shard or shard[0] == 0):
            acc.sample(dict(workbook=fam['name'], cells=fam['spec']['sheets'], n_paths=len(p.ops),
                            example_paths=[p.paths[o[1]][:2] for o in p.ops[:3] + p.ops[-3:]], result=res))
    finally:
        shutil.rmtree(tmp, ignore_errors=True)
    return acc.result()


class PC(explore.Problem):
    """histories that also write (set_value on inputs, override of a formula cell, recalculate): after every
    operation all access paths must still agree with each other (no reference values involved)"""

    def __init__(self, fam):
        self.fam, self.spec = fam, fam['spec']
        forms = W.formula_cells(self.spec)
        self.rpaths = (fam['ranges'] + fam['unbounded'])[:3]
        self.ops = [('ev', a) for a in fam['cells']] + [('ev', r) for r in self.rpaths] + \
                   [('set', i, v) for i in fam['inputs'][:2] for v in (7, None)] + \
                   [('set', c, 99) for c in forms[:2]] + [('recalc',)]
        self.checked = 0

    def new(self):
        return {'m': W.compile_inmem(self.spec)}

    def step(self, st, op):
        """the operation, followed by a read of every range path already in the model and of its member cells
        (the reads are part of the transition, so replaying a history reproduces them)"""
        obs = self._op(st, op)
        m = st['m']
        reads = []
        if obs[0] != 'exc':
            for r in self.rpaths:
                if r not in m.cell_map:
                    continue
                try:
                    rv = m.evaluate(r)
                    cells = [[m.evaluate(c) for c in row] for row in self.members(r)]
                    reads.append((r, rv, cells))
                except Exception as exc:
                    reads.append((r, ('exc', type(exc).__name__, str(exc)[-120:]), None))
        st['reads'] = reads
        return obs

    def _op(self, st, op):
        m = st['m']
        try:
            if op[0] == 'ev':
                return ('ok', m.evaluate(op[1]))
            if op[0] == 'recalc':
                m.recalculate()
                return ('recalc',)
            m.set_value(op[1], op[2])
            return ('set',)
        except AssertionError as exc:
            return ('refused',) if 'not found in the cell map' in str(exc) else ('exc', 'AssertionError', str(exc)[-150:])
        except Exception as exc:
            return ('exc', type(exc).__name__, str(exc)[-150:])

    def members(self, addr):
        sh, ref = W.split_addr(addr)
        a, b = ref.split(':')
        if W.CELL_RE.match(a) and W.CELL_RE.match(b):
            return [[f'{sh}!{c}' for c in row] for row in W.range_cells(ref)]
        mc_, mr = W.used_range(self.spec, sh)
        if a.isdigit():
            return [[f'{sh}!{W.rc_cell(c, int(a))}' for c in range(1, mc_ + 1)]]
        return [[f'{sh}!{a}{r}'] for r in range(1, mr + 1)]

    def check(self, st, hist, op, obs):
        if obs[0] == 'exc':
            return f'{op} raised {obs[1]}: {obs[2]}'
        for r, rv, cells in st.get('reads', ()):
            if cells is None:
                return f'after {op}: evaluating {r} and its member cells raised {rv[1]}: {rv[2]}'
            self.checked += 1
            if not W.veq(_norm(rv), _norm(trim(cells))):
                return (f'after {op}: evaluate({r}) = {W.show(rv)} but its member cells evaluate to {W.show(trim(cells))}')
        return None

    def canon(self, st):
        return explore.canon_compiler(st['m'])

    def case(self, hist, op, obs):
        return dict(kind='consistency', wb=self.fam['name'], origin='inmem', fam=_strip(self.fam),
                    hist=[list(o) for o in hist], op=list(op), exc=obs[1] if obs[0] == 'exc' else None, observed=jsonable(obs))


def work_consistency(job):
    fam, depth, max_states = job
    acc = Acc()
    p = PC(fam)
    res = explore.bfs(p, depth, acc, max_states=max_states)
    acc.add('states', res['states'])
    acc.add('transitions', res['transitions'])
    acc.add('evaluations', res['transitions'])
    acc.add('traces_validated_against_impl', res['transitions'])
    acc.add('distinct_nontrivial', p.checked)
    acc.add('consistency_jobs_capped', int(res['capped']))
    return acc.result()


def work_perm(job):
    fam, = job
    acc = Acc()
    p = P(fam, 'inmem', None)
    ref = p.reference()
    fcells = [a for a in fam['cells'] if a in W.formula_cells(fam['spec'])] or fam['cells']
    arr = [a for a in fam['cells'] if a not in W.formula_cells(fam['spec']) and a not in W.constant_cells(fam['spec'])]
    fcells = (fcells + arr)[:6]
    n = 0
    for perm in itertools.permutations(fcells):
        m = W.compile_inmem(fam['spec'])
        n += 1
        for a in perm:
            try:
                v = ('ok', m.evaluate(a))
            except Exception as exc:
                v = ('exc', type(exc).__name__)
            acc.add('evaluations')
            e = ref[a]
            if e[0] == 'ok' and (v[0] != 'ok' or not W.veq(v[1], e[1])):
                acc.violation(dict(kind='perm', wb=fam['name'], fam=_strip(fam), order=list(perm), cell=a,
                                   observed=jsonable(v)),
                              f'first-evaluation order {perm}: evaluate({a}) = {v!r} but reference order gives {W.show(e[1])}')
    acc.add('permutations', n)
    acc.add('transitions', n * len(fcells))
    acc.add('states', n)
    acc.add('distinct_nontrivial', n)
    return acc.result()


BESIDE = [
    # (cells, [(address, expected flat values) ...]) -- each address is evaluated on a fresh model (no history)
    ({'A1': 5}, [('S!A:A', [5]), ('S!1:1', [5]), ('A:A', [5]), ('S!A:B', [5, None]), ('S!C:C', [None]), ('S!3:3', [None])]),
    ({'A1': '=1+1'}, [('S!A:A', [2]), ('S!1:1', [2]), ('S!B:B', [None])]),
    ({'A1': 5, 'B1': '=A1+1'}, [('S!A:A', [5]), ('S!C:C', [None]), ('S!3:3', [None, None]), ('S!1:1', [5, 6])]),
    ({'A1': 5, 'B1': '=A1+1', 'A2': '=SUM(D:D)', 'B2': '=SUM(5:5)+A1', 'A3': '=COUNT(D:E)'},
     [('S!A2', [0]), ('S!B2', [5]), ('S!A3', [0]), ('S!D:D', [None, None, None]), ('S!5:5', [None, None]), ('S!A:A', [5, 0, 0])]),
    ({'C3': 5}, [('S!A:A', [None, None, None]), ('S!C:C', [None, None, 5]), ('S!3:3', [None, None, 5])]),
]


def work_beside(job):
    """unbounded ranges whose clip to the used area is a single cell, or which lie beside the used area (an empty
    column or row): the elements are the values of the cells the range names within the used rows / columns -- blank
    outside the data -- exactly as evaluate(cell) gives them; formulas over them evaluate"""
    acc = Acc()
    for cells, queries in BESIDE:
        spec = {'sheets': {'S': cells}, 'active': 'S'}
        for addr, want in queries:
            acc.add('evaluations')
            acc.add('states')
            acc.add('transitions')
            acc.add('distinct_nontrivial')
            m = W.compile_inmem(spec)
            case = dict(kind='beside', cells=cells, addr=addr)
            try:
                v = m.evaluate(addr)
                again = m.evaluate(addr)
            except Exception as exc:
                acc.violation(dict(case, verdict='raised', exc=type(exc).__name__),
                              f'workbook {cells}: evaluate({addr!r}) raised {type(exc).__name__}: {str(exc)[:120]}')
                continue
            flat = [x for r in v for x in (r if isinstance(r, tuple) else (r,))] if isinstance(v, tuple) else [v]
            if len(flat) != len(want) or not all(W.veq(a, b) for a, b in zip(flat, want)):
                acc.violation(dict(case, verdict='wrong-elements', observed=jsonable(v), expected=jsonable(want)),
                              f'workbook {cells}: evaluate({addr!r}) = {v!r}, the cells it names hold {want!r}')
            elif not W.veq(jsonable(v), jsonable(again)):
                acc.violation(dict(case, verdict='not-repeatable', observed=jsonable(again), expected=jsonable(v)),
                              f'workbook {cells}: evaluate({addr!r}) = {v!r}, repeated: {again!r}')
    return acc.result()


def run(ctx):
    fams = family.curated()
    jobs = []
    for f in fams:
        if ctx.thorough:
            for k in range(4):
                jobs.append((f, 'inmem', 3, 40000, None, (k, 4)))
            jobs.append((f, 'xlsx', 2, 40000, None, None))
        else:
            for k in range(2):
                jobs.append((f, 'inmem', 2, 20000, 60, (k, 2)))
            jobs.append((f, 'xlsx', 2, 20000, 30, None))
    k = ctx.seed % len(jobs)
    ctx.pmap(work, jobs[k:] + jobs[:k], timeout=3000)
    ctx.pmap(work_perm, [(f,) for f in fams], timeout=3000)
    ctx.pmap(work_beside, [(0,)], timeout=600)
    ctx.pmap(work_consistency, [(f, 4 if ctx.thorough else 3, 30000) for f in fams if f['ranges'] or f['unbounded']], timeout=3000)
    if ctx.thorough:
        ctx.pmap(work_perm, [(f,) for f in family.enumerated()], timeout=3000)
    ctx.extra['exhaustive'] = ctx.counts.get('jobs_capped', 0) == 0
    ctx.extra['workbooks'] = len(fams)


def replay(case):
    if case['kind'] == 'beside':
        r = work_beside((0,))
        hits = [m for c, m in r['violations'] if c.get('cells') == case['cells'] and c.get('addr') == case['addr']]
        return bool(hits), '\n'.join(hits[:2]) or 'no violation'
    fam = case['fam']
    if case['kind'] == 'perm':
        p = P(fam, 'inmem', None)
        ref = p.reference()
        m = W.compile_inmem(fam['spec'])
        bad = False
        lines = [f"workbook {fam['name']} {fam['spec']['sheets']} order {case['order']}"]
        for a in case['order']:
            try:
                v = ('ok', m.evaluate(a))
            except Exception as exc:
                v = ('exc', type(exc).__name__)
            e = ref[a]
            ok = not (e[0] == 'ok' and (v[0] != 'ok' or not W.veq(v[1], e[1])))
            bad |= not ok
            lines.append(f'  evaluate({a}) -> {v!r}   reference {e!r} {"" if ok else "  <-- differs"}')
        return bad, '\n'.join(lines)
    if case['kind'] == 'consistency':
        p = PC(fam)
        st = p.new()
        lines = [f"workbook {fam['name']} cells={fam['spec']['sheets']}"]
        msg = None
        for o in [tuple(x) for x in case['hist']] + [tuple(case['op'])]:
            r = p.step(st, o)
            msg = p.check(st, (), o, r)
            lines.append(f'  {o} -> {r!r}' + (f'   <-- {msg}' if msg else ''))
        return bool(msg), '\n'.join(lines)
    tmp = tempfile.mkdtemp(prefix='c05r_')
    try:
        p = P(fam, case['origin'], tmp)
        st = p.new()
        lines = [f"workbook {fam['name']} origin={case['origin']} cells={fam['spec']['sheets']}"]
        for o in [tuple(x) for x in case['hist']]:
            lines.append(f'  {p.paths[o[1]][:2]} -> {p.step(st, o)!r}')
        op = tuple(case['op'])
        obs = p.step(st, op)
        msg = p.check(st, (), op, obs)
        lines.append(f'  {p.paths[op[1]][:2]} -> {obs!r}')
        lines.append('  verdict: ' + (msg or 'agrees'))
        return bool(msg), '\n'.join(lines)
    finally:
        shutil.rmtree(tmp, ignore_errors=True)
