"""C19 -- rounding family: decimal exact, half away from zero, correct brackets."""
import math
from decimal import Decimal
from fractions import Fraction

from mc import feval, wb as W
from mc.runner import Acc, jsonable

ID = 'C19'
LEVEL = 'model_checking'
RULE = ('every x = k/10^j (j in 0..4, |k| <= 2000 quick; j in 0..6 on a tie-closed structured set of ~2M x thorough) x '
        'digits -6..6: ROUND / ROUNDDOWN / ROUNDUP / TRUNC through compiled formulas vs exact Fraction arithmetic on the '
        'shortest decimal rendering of x (ties away from zero, toward / away from zero, exact multiples fixed, '
        '|ROUNDDOWN| <= |x| <= |ROUNDUP|); INT = floor; EVEN / ODD; MOD laws over an integer and decimal grid; '
        'CEILING / FLOOR / .MATH / .PRECISE over x grid x signed significances {1, 2, 0.5, 0.1, 3, 0.25, 0}; generated '
        'binary-float artefacts (all products a*b and quotients a/b of the 2-decimal grid whose float differs from '
        'the decimal); 23 extreme magnitudes (1e15+0.5 .. 1.8e308, 5e-324, > 2^53) x 31 digit counts (-10^6 .. 1e10) vs the '
        'same exact model, #NUM! when the result is not representable. distinct_nontrivial = (x, digits) pairs where x is an exact tie or an exact multiple, or a float artefact.')
ASSUMPTIONS = ['the expected float is float(exact Fraction) (correctly rounded)',
               'CEILING/FLOOR with number > 0 > significance may return #NUM! (documented) or a bracketing multiple',
               'MOD with non-integers is judged by its two laws with tolerance 1e-9*|n|']
GROUP = ('fn', 'verdict')


def F(x):
    if isinstance(x, int):
        return Fraction(x)
    return Fraction(Decimal(repr(float(x))))


def rnd(q, d, mode):
    unit = Fraction(10) ** (-d)
    t = q / unit
    a = abs(t)
    if mode == 'half':
        n = math.floor(a + Fraction(1, 2))
    elif mode == 'down':
        n = math.floor(a)
    else:
        n = math.ceil(a)
    return (n if t >= 0 else -n) * unit


def fl(fr):
    return float(fr)


def same(obs, exp_fr):
    if isinstance(obs, bool) or not isinstance(obs, (int, float)):
        return False
    return obs == fl(exp_fr) or (isinstance(obs, int) and Fraction(obs) == exp_fr)


def xs_quick():
    out = []
    for j in range(0, 5):
        for k in range(-2000, 2001):
            out.append((k, j))
    return out


def xs_thorough():
    out = set()
    for j in range(0, 7):
        p = 10 ** j
        for k in range(-3000, 3001):
            out.add((k, j))
        # ties and neighbours at every digit position for a structured set of leading parts
        for lead in list(range(0, 1000, 7)) + [999, 1000, 99999, 100000, 123456]:
            for dpos in range(0, j + 1):
                half = 5 * 10 ** (dpos - 1) if dpos >= 1 else 0
                base = lead * 10 ** dpos
                for delta in (-1, 0, 1):
                    for sgn in (1, -1):
                        k = sgn * (base + half + delta)
                        if abs(k) <= 10 ** 6 * 10:
                            out.add((k, j))
    return sorted(out)


def work_round(job):
    k0, m, thorough = job
    acc = Acc()
    ev = feval.Evaluator()
    xs = xs_thorough() if thorough else xs_quick()
    for i, (k, j) in enumerate(xs):
        if i % m != k0:
            continue
        x = k / 10 ** j if j else k
        q = F(x)
        env = {'A1': x}
        for d in range(-6, 7):
            env['B1'] = d
            unit = Fraction(10) ** (-d)
            t = q / unit
            is_tie = (abs(t) * 2) % 2 == 1
            is_mult = t.denominator == 1
            acc.add('states')
            if is_tie or is_mult:
                acc.add('distinct_nontrivial')
            exp = {'ROUND': rnd(q, d, 'half'), 'ROUNDDOWN': rnd(q, d, 'down'), 'ROUNDUP': rnd(q, d, 'up'),
                   'TRUNC': rnd(q, d, 'down')}
            got = {}
            for fn in exp:
                o = ev.run(f'={fn}(A1,B1)', env)
                acc.add('evaluations')
                got[fn] = o
                case = dict(kind='round', fn=fn, x=x, k=k, j=j, digits=d)
                if o[0] != 'ok':
                    acc.violation(dict(case, verdict='raised', exc=o[1]), f'={fn}({x!r},{d}) raised {o[1]}: {o[2][-80:]}')
                elif not same(o[1], exp[fn]):
                    acc.violation(dict(case, verdict='wrong-value', observed=jsonable(o[1]), expected=fl(exp[fn]), tie=is_tie, multiple=is_mult),
                                  f'={fn}({x!r},{d}) = {o[1]!r}, exact decimal arithmetic gives {fl(exp[fn])!r}'
                                  + (' (tie)' if is_tie else ' (exact multiple)' if is_mult else ''))
            if all(g[0] == 'ok' and isinstance(g[1], (int, float)) for g in got.values()):
                if not (abs(got['ROUNDDOWN'][1]) <= abs(x) <= abs(got['ROUNDUP'][1])):
                    acc.violation(dict(kind='round', fn='ROUNDDOWN/UP', verdict='not-bracketing', x=x, k=k, j=j, digits=d),
                                  f'|ROUNDDOWN({x!r},{d})| = {got["ROUNDDOWN"][1]!r} <= |x| <= |ROUNDUP| = {got["ROUNDUP"][1]!r} does not hold')
        # one-argument forms
        for fn, e in (('INT', Fraction(math.floor(q))), ('TRUNC', rnd(q, 0, 'down')), ('ROUND', None)):
            if e is None:
                continue
            o = ev.run(f'={fn}(A1)', env)
            acc.add('evaluations')
            if o[0] != 'ok' or not same(o[1], e):
                acc.violation(dict(kind='round', fn=fn + '1', verdict='wrong-value', x=x, k=k, j=j, digits=None, observed=jsonable(o[:2]),
                                   expected=fl(e)),
                              f'={fn}({x!r}) = {o[:2]!r}, expected {fl(e)!r}')
        if j <= 1:
            a = abs(q)
            ev_e = math.ceil(a / 2) * 2
            od_e = math.ceil((a - 1) / 2) * 2 + 1 if a > 0 else 1
            sgn = -1 if q < 0 else 1
            for fn, e in (('EVEN', sgn * ev_e), ('ODD', sgn * od_e)):
                o = ev.run(f'={fn}(A1)', env)
                acc.add('evaluations')
                if o[0] != 'ok' or not same(o[1], Fraction(e)):
                    acc.violation(dict(kind='round', fn=fn, verdict='wrong-value', x=x, k=k, j=j, digits=None, observed=jsonable(o[:2]), expected=e),
                                  f'={fn}({x!r}) = {o[:2]!r}, next {fn.lower()} integer away from zero is {e}')
    acc.counts['transitions'] = acc.counts.get('evaluations', 0)
    return acc.result()


SIGS = [1, 2, 0.5, 0.1, 3, 0.25, -1, -2, -0.5, -0.1, -3, 0]


def bracket_expected(fn, q, s):
    """exact expected multiple per Microsoft's documentation, or a set of acceptable answers"""
    if s == 0:
        return None
    a = abs(s)
    up = math.ceil(q / a) * a
    dn = math.floor(q / a) * a
    if fn in ('CEILING.MATH', 'CEILING.PRECISE'):
        return {up}
    if fn in ('FLOOR.MATH', 'FLOOR.PRECISE'):
        return {dn}
    if fn == 'CEILING':
        if q > 0 and s < 0:
            return {'#NUM!', up}
        if q < 0 and s < 0:
            return {dn}              # away from zero
        return {up}
    if fn == 'FLOOR':
        if q > 0 and s < 0:
            return {'#NUM!', dn}
        if q < 0 and s < 0:
            return {up}              # toward zero
        return {dn}


def work_brackets(job):
    k0, m, thorough = job
    acc = Acc()
    ev = feval.Evaluator()
    xs = [(k, j) for j in range(0, 3) for k in range(-600, 601)]
    if thorough:
        xs += [(k, 3) for k in range(-3000, 3001)]
    for i, (k, j) in enumerate(xs):
        if i % m != k0:
            continue
        x = k / 10 ** j if j else k
        q = F(x)
        env = {'A1': x}
        for s in SIGS:
            env['B1'] = s
            sq = F(s)
            for fn in ('CEILING', 'FLOOR', 'CEILING.MATH', 'FLOOR.MATH', 'CEILING.PRECISE', 'FLOOR.PRECISE'):
                o = ev.run(f'={fn}(A1,B1)', env)
                acc.add('evaluations')
                acc.add('states')
                exp = bracket_expected(fn, q, sq)
                if exp is not None and (q / abs(sq)).denominator == 1:
                    acc.add('distinct_nontrivial')
                case = dict(kind='bracket', fn=fn, x=x, k=k, j=j, sig=s)
                if o[0] != 'ok':
                    acc.violation(dict(case, verdict='raised', exc=o[1]), f'={fn}({x!r},{s!r}) raised {o[1]}: {o[2][-80:]}')
                    continue
                if exp is None:
                    if not (o[1] in (0, '#DIV/0!', '#NUM!') or isinstance(o[1], (int, float))):
                        acc.violation(dict(case, verdict='wrong-value', observed=jsonable(o[1])), f'={fn}({x!r},0) = {o[1]!r}')
                    continue
                ok = any((e == o[1]) if isinstance(e, str) else (isinstance(o[1], (int, float)) and not isinstance(o[1], bool)
                                                                  and abs(Fraction(o[1]) - e) <= abs(e) * Fraction(1, 10 ** 12) + Fraction(1, 10 ** 12))
                         for e in exp)
                if not ok:
                    acc.violation(dict(case, verdict='wrong-multiple', observed=jsonable(o[1]),
                                       expected=[e if isinstance(e, str) else fl(e) for e in exp]),
                                  f'={fn}({x!r},{s!r}) = {o[1]!r}, the bracketing multiple of {s!r} is '
                                  f'{[e if isinstance(e, str) else fl(e) for e in exp]}')
    acc.counts['transitions'] = acc.counts.get('evaluations', 0)
    return acc.result()


def work_mod(job):
    acc = Acc()
    ev = feval.Evaluator()
    ns = list(range(-25, 26)) + [k / 10 for k in range(-255, 256, 7)] + [100, -100, 1e6 + 1, -1e6 - 1, 0.1, -0.1, 1234.5678, 65536, 999.999, 1000000]
    ds = [1, 2, 3, 7, -1, -2, -3, -7, 0.5, -0.5, 0.1, -0.1, 2.5, 10, -10, 0, 0.001, -0.001, 0.0003, 1e-6]
    for n in ns:
        for d in ds:
            env = {'A1': n, 'B1': d}
            o = ev.run('=MOD(A1,B1)', env)
            i = ev.run('=INT(A1/B1)', env)
            acc.add('evaluations', 2)
            acc.add('states')
            acc.add('distinct_nontrivial', int((n < 0) != (d < 0)))
            case = dict(kind='mod', fn='MOD', n=n, d=d)
            if o[0] != 'ok':
                acc.violation(dict(case, verdict='raised', exc=o[1]), f'=MOD({n!r},{d!r}) raised {o[1]}')
                continue
            if d == 0:
                if o[1] != '#DIV/0!':
                    acc.violation(dict(case, verdict='wrong-value', observed=jsonable(o[1])), f'=MOD({n!r},0) = {o[1]!r}, expected #DIV/0!')
                continue
            r = o[1]
            if not isinstance(r, (int, float)) or isinstance(r, bool):
                acc.violation(dict(case, verdict='wrong-value', observed=jsonable(r)), f'=MOD({n!r},{d!r}) = {r!r}')
                continue
            if r != 0 and (r < 0) != (d < 0):
                acc.violation(dict(case, verdict='wrong-sign', observed=r), f'=MOD({n!r},{d!r}) = {r!r} does not have the sign of the divisor')
            if not abs(r) < abs(d) * (1 + 1e-12):
                acc.violation(dict(case, verdict='not-below-divisor', observed=r), f'=MOD({n!r},{d!r}) = {r!r} is not smaller than the divisor')
            ip = math.floor(F(n) / F(d))          # INT of the exact (decimal) quotient, not of a binary float division
            if abs(F(n) - (F(d) * ip + F(r))) > Fraction(1, 10 ** 9) * max(1, abs(F(n))):
                acc.violation(dict(case, verdict='identity-fails', observed=r, int_part=ip),
                              f'n = d*INT(n/d) + MOD(n,d) fails for n={n!r}, d={d!r}: INT={ip!r}, MOD={r!r}')
            if isinstance(n, int) and isinstance(d, int):
                e = n - d * math.floor(Fraction(n, d))
                if r != e:
                    acc.violation(dict(case, verdict='wrong-value', observed=r, expected=e), f'=MOD({n},{d}) = {r!r}, expected {e}')
    acc.counts['transitions'] = acc.counts.get('evaluations', 0)
    return acc.result()


def work_artefacts(job):
    k0, m = job
    acc = Acc()
    ev = feval.Evaluator()
    grid = [k / 100 for k in range(1, 400, 3)] + [0.29, 0.57, 0.58, 1.15, 2.675, 1.005, 8.325, 4.35]
    mult = [10, 100, 1000, 3, 7, 1.1]
    i = 0
    for a in grid:
        for b in mult:
            for x in (a * b, a / b if b else 0):
                i += 1
                if i % m != k0:
                    continue
                if Decimal(repr(x)) == Decimal(repr(a)) * Decimal(repr(b)):
                    continue          # not an artefact
                q = F(x)
                env = {'A1': x}
                for d in (0, 1, 2, 3):
                    env['B1'] = d
                    acc.add('states')
                    acc.add('distinct_nontrivial')
                    for fn, mode in (('ROUND', 'half'), ('ROUNDDOWN', 'down'), ('ROUNDUP', 'up'), ('TRUNC', 'down')):
                        o = ev.run(f'={fn}(A1,B1)', env)
                        acc.add('evaluations')
                        e = rnd(q, d, mode)
                        if o[0] != 'ok' or not same(o[1], e):
                            acc.violation(dict(kind='artefact', fn=fn, verdict='wrong-value', x=x, digits=d, observed=jsonable(o[:2]), expected=fl(e)),
                                          f'={fn}({x!r},{d}) = {o[:2]!r}; the shortest decimal rendering {x!r} rounds to {fl(e)!r}')
    acc.counts['transitions'] = acc.counts.get('evaluations', 0)
    return acc.result()


def work_fresh_thread(job):
    """the same tie cases on a thread that never used the library (rounding must not depend on thread-local state)"""
    import threading
    acc = Acc()
    box = {}
    # the library is first used (and its modules imported) on THIS thread; the checks then run on a new one
    feval.Evaluator().run('=ROUND(2.5,0)+MOD(7,3)', {})

    def body():
        ev = feval.Evaluator()
        out = []
        for x, d in ((2.5, 0), (0.125, 2), (25, -1), (-6.5, 0), (1.005, 2), (305, -1), (0.5, 0), (-0.5, 0)):
            for fn, mode in (('ROUND', 'half'), ('ROUNDUP', 'up'), ('ROUNDDOWN', 'down'), ('TRUNC', 'down')):
                out.append((fn, x, d, ev.run(f'={fn}(A1,B1)', {'A1': x, 'B1': d}), rnd(F(x), d, mode)))
        for f, e in (('=MOD(-7,3)', 2), ('=CEILING(0.3,0.1)', Fraction(3, 10)), ('=EVEN(-3)', -4), ('=TEXT(2.5,"0")', None)):
            out.append((f, None, None, ev.run(f, {}), e))
        box['out'] = out
    t = threading.Thread(target=body)
    t.start()
    t.join()
    for fn, x, d, o, e in box.get('out', []):
        acc.add('evaluations')
        acc.add('states')
        acc.add('distinct_nontrivial')
        if e is None:
            if o[:2] != ('ok', '3'):
                acc.violation(dict(kind='thread', fn='TEXT', verdict='wrong-value', observed=jsonable(o[:2])), f'{fn} on a fresh thread = {o[:2]!r}, expected 3')
            continue
        ok = o[0] == 'ok' and (same(o[1], e) if isinstance(e, Fraction) else same(o[1], Fraction(e)))
        if not ok:
            acc.violation(dict(kind='thread', fn=fn.strip('=').split('(')[0], verdict='wrong-value', x=x, digits=d, observed=jsonable(o[:2]),
                               expected=fl(Fraction(e))),
                          f'{fn}({x!r},{d}) evaluated on a fresh thread = {o[:2]!r}, expected {fl(Fraction(e))!r}')
    if not box.get('out'):
        acc.violation(dict(kind='thread', fn='thread', verdict='raised'), 'the fresh thread died')
    acc.counts['transitions'] = acc.counts.get('evaluations', 0)
    return acc.result()


EXT_XS = [2.5, -2.5, 0.125, 0.1 + 0.2, 0.0, 123456789012345.6, 1000000000000000.5, -99999999999999.95, 1e22, 1e23, 1e28, -1e28,
          12345678901234567890123456789.0, 1e300, -1e300, 1.7976931348623157e308, -1.7976931348623157e308, 5e-324, -5e-324, 1e-300,
          0.5, 5e27, 4.999999999999999e27]
EXT_DS = [-10 ** 6, -400, -309, -308, -307, -30, -29, -28, -27, -20, -16, -15, 15, 16, 17, 20, 27, 28, 29, 30, 100, 307, 308, 309, 323, 324,
          325, 400, 10 ** 6, 1e10, -1e10]


def expect_round(x, d, mode):
    """exact result as a float, '#NUM!' when it is not representable.  No float has a decimal digit beyond 10^+-400,
    so clamping the digit position there leaves the mathematical result unchanged (and the model fast)."""
    d = max(-400, min(400, int(d)))
    try:
        return float(rnd(F(x), d, mode))
    except OverflowError:
        return '#NUM!'


def work_extremes(job):
    """magnitudes and digit counts far outside the everyday grid: the decimal machinery must not run out of precision
    (28 significant digits by default), lose the exponent of 10^-d, or overflow silently"""
    acc = Acc()
    ev = feval.Evaluator()
    for x in EXT_XS:
        for d in EXT_DS:
            env = {'A1': x, 'B1': d}
            for fn, mode in (('ROUND', 'half'), ('ROUNDDOWN', 'down'), ('ROUNDUP', 'up'), ('TRUNC', 'down')):
                o = ev.run(f'={fn}(A1,B1)', env)
                acc.add('evaluations')
                acc.add('states')
                acc.add('distinct_nontrivial')
                e = expect_round(x, d, mode)
                case = dict(kind='round', fn=fn, x=x, digits=d, extreme=True)
                if o[0] != 'ok':
                    acc.violation(dict(case, verdict='raised', exc=o[1]), f'={fn}({x!r},{d}) raised {o[1]}: {o[2][-80:]}')
                elif isinstance(o[1], bool) or not (o[1] == e and (isinstance(e, str) or isinstance(o[1], (int, float)))):
                    acc.violation(dict(case, verdict='wrong-value', observed=jsonable(o[1]), expected=e),
                                  f'={fn}({x!r},{d}) = {o[1]!r}, exact decimal arithmetic gives {e!r}')
        for fn, e in (('INT', math.floor(F(x))), ('TRUNC', math.trunc(F(x))), ('ROUND', None)):
            o = ev.run(f'={fn}(A1)' if fn != 'ROUND' else '=ROUND(A1,0)', {'A1': x})
            acc.add('evaluations')
            if e is None:
                e = expect_round(x, 0, 'half')
            if o[0] != 'ok' or isinstance(o[1], bool) or not isinstance(o[1], (int, float)) or o[1] != float(e):
                acc.violation(dict(kind='round', fn=fn + '1', verdict='wrong-value', x=x, digits=None, extreme=True, observed=jsonable(o[:2]),
                                   expected=float(e)), f'={fn}({x!r}) = {o[:2]!r}, expected {float(e)!r}')
    # MOD and the CEILING / FLOOR family when the quotient needs far more than the 28 digits of the default decimal
    # context, and at the overflow edge: the laws of the statement, exactly (Fractions)
    # (whole floats >= 2^53 that are not exact powers of ten are left out: the statement fixes the decimal reading of
    # such a number for ROUND only, and its binary value gives another, equally lawful remainder)
    big = [(5.5, 3e-30), (5.5, -3e-30), (-5.5, 3e-30), (-5.5, -3e-30), (123456789.5, 1e-25), (0.1, 1e-40), (1e22, 0.3), (-1e22, 0.3),
           (7.5, 1e-300), (-7.5, 1e-300), (2.5, 7e-31), (1e15 + 0.5, 1e-20)]
    for n, d in big:
        o = ev.run('=MOD(A1,B1)', {'A1': n, 'B1': d})
        acc.add('evaluations')
        acc.add('states')
        acc.add('distinct_nontrivial')
        qn, qd = F(n), F(d)
        exact = qn - qd * math.floor(qn / qd)
        case = dict(kind='mod', fn='MOD', n=n, d=d, extreme=True)
        if o[0] != 'ok':
            acc.violation(dict(case, verdict='raised', exc=o[1]), f'=MOD({n!r},{d!r}) raised {o[1]}')
        elif isinstance(o[1], str):
            if o[1] != '#NUM!':
                acc.violation(dict(case, verdict='wrong-value', observed=o[1], expected=float(exact)), f'=MOD({n!r},{d!r}) = {o[1]!r}')
        elif not (o[1] == float(exact) or abs(F(o[1]) - exact) <= abs(qd) * Fraction(1, 10 ** 9)) or \
                (o[1] != 0 and (o[1] > 0) != (d > 0)) or not abs(o[1]) < abs(d):
            acc.violation(dict(case, verdict='wrong-value', observed=jsonable(o[1]), expected=float(exact)),
                          f'=MOD({n!r},{d!r}) = {o[1]!r}; n - d*INT(n/d) = {float(exact)!r} (sign of d, |r| < |d|)')
        for fn in ('CEILING.MATH', 'FLOOR.MATH', 'CEILING.PRECISE', 'FLOOR.PRECISE'):
            o = ev.run(f'={fn}(A1,B1)', {'A1': n, 'B1': d})
            acc.add('evaluations')
            a = abs(qd)
            want = (math.ceil(qn / a) if fn.startswith('CEIL') else math.floor(qn / a)) * a
            case = dict(kind='bracket', fn=fn, x=n, sig=d, extreme=True)
            if o[0] != 'ok':
                acc.violation(dict(case, verdict='raised', exc=o[1]), f'={fn}({n!r},{d!r}) raised {o[1]}')
            elif isinstance(o[1], str) or not same(o[1], want):
                acc.violation(dict(case, verdict='wrong-multiple', observed=jsonable(o[1]), expected=float(want)),
                              f'={fn}({n!r},{d!r}) = {o[1]!r}, the bracketing multiple is {float(want)!r}')
    for f, env in (('=CEILING(A1,B1)', {'A1': 1.7e308, 'B1': 1e308}), ('=FLOOR(A1,B1)', {'A1': -1.7e308, 'B1': 1e308}),
                   ('=CEILING.MATH(A1,B1)', {'A1': 1.7e308, 'B1': 1e308}), ('=FLOOR.MATH(A1,B1)', {'A1': -1.7e308, 'B1': 1e308})):
        o = ev.run(f, env)
        acc.add('evaluations')
        if o[:2] != ('ok', '#NUM!'):
            acc.violation(dict(kind='bracket', fn=f.split('(')[0][1:], x=env['A1'], sig=env['B1'], extreme=True, verdict='wrong-multiple',
                               observed=jsonable(o[:2]), expected='#NUM!'),
                          f'{f} with {env} = {o[:2]!r}; the multiple is not representable, expected #NUM!')
    acc.counts['transitions'] = acc.counts.get('evaluations', 0)
    return acc.result()


def work_threaded(job):
    """a whole worker function run on a thread that never used the library, after the library was first used on this
    (the process's main) thread: nothing may depend on per-thread state set up by the first user (decimal contexts)"""
    import threading
    name, inner = job
    feval.Evaluator().run('=ROUND(2.5,0)+MOD(7,3)+CEILING(0.3,0.1)+FLOOR(1e22,0.3)+MOD(1e22,0.3)', {})
    box = {}

    def body():
        box['res'] = globals()[name](inner)
    t = threading.Thread(target=body)
    t.start()
    t.join()
    if 'res' not in box:
        acc = Acc()
        acc.violation(dict(kind='thread', fn='thread', verdict='raised'), f'{name} died on a fresh thread')
        return acc.result()
    res = box['res']
    res['violations'] = [(dict(c, fresh_thread=True), 'on a fresh thread: ' + m) for c, m in res['violations']]
    return res


NUMTEXTS = ['4.0', '3.0', '0.0', '1e3', '-7.0', '2.50', '12.0', '7', '-2.5', '1E+2', '.5', '5.', '+3.0', '2.5e0']


def work_argforms(job):
    """the same numbers arriving in other forms: as text that spells them (a text argument is that number or an error
    value, never another number) and as numpy scalars (what SLOPE / FORECAST return: plain numbers)"""
    import numpy as np
    acc = Acc()
    ev = feval.Evaluator()
    forms = ['=EVEN(A1)', '=ODD(A1)', '=INT(A1)', '=ROUND(A1,0)', '=ROUND(A1,1)', '=ROUNDUP(A1,0)', '=ROUNDDOWN(A1,0)', '=TRUNC(A1)', '=TRUNC(A1,1)',
             '=MOD(A1,3)', '=MOD(10,A1)', '=CEILING(A1,1)', '=FLOOR(A1,1)', '=CEILING.MATH(A1)', '=FLOOR.MATH(A1)', '=CEILING(7,A1)',
             '=ROUND(2.345,A1)', '=ROUNDUP(-2.345,A1)']
    args = [(t, float(t)) for t in NUMTEXTS]
    args += [(np.float64(v), v) for v in (2.5, -2.5, 0.125, 1.9099999999999995, 4.0, -7.0, 0.0, 1e22)] + [(np.int64(3), 3), (np.int64(-4), -4)]
    for f in forms:
        for arg, val in args:
            o, e = ev.run(f, {'A1': arg}), ev.run(f, {'A1': val})
            acc.add('evaluations', 2)
            acc.add('states')
            acc.add('distinct_nontrivial')
            kind = 'text' if isinstance(arg, str) else 'numpy'
            case = dict(kind='argform', fn=f.split('(')[0][1:], formula=f, arg=repr(arg), form=kind)
            if o[0] != 'ok':
                acc.violation(dict(case, verdict='raised', exc=o[1]), f'{f} with A1 = {arg!r} raised {o[1]}: {o[2][-80:]}')
            elif e[0] == 'ok' and not (o[1] == e[1] or (kind == 'text' and isinstance(o[1], str) and o[1].startswith('#'))):
                acc.violation(dict(case, verdict='wrong-value', observed=jsonable(o[1]), expected=jsonable(e[1])),
                              f'{f} with A1 = {arg!r} = {o[1]!r}, with the number {val!r} it is {e[1]!r}')
    acc.counts['transitions'] = acc.counts.get('evaluations', 0)
    return acc.result()


def run(ctx):
    m = 64
    ctx.pmap(work_fresh_thread, [(0,), (1,)], timeout=600)
    ctx.pmap(work_round, [((k + ctx.seed) % m, m, ctx.thorough) for k in range(m)], timeout=6000)
    ctx.pmap(work_brackets, [(k, 32, ctx.thorough) for k in range(32)], timeout=6000)
    ctx.pmap(work_mod, [(0,)], timeout=1200)
    ctx.pmap(work_extremes, [(0,)], timeout=1200)
    ctx.pmap(work_threaded, [('work_extremes', (0,)), ('work_mod', (0,)), ('work_argforms', (0,))], timeout=1200)
    ctx.pmap(work_argforms, [(0,)], timeout=600)
    ctx.pmap(work_artefacts, [(k, 8) for k in range(8)], timeout=1200)
    ctx.sample(dict(formula='=ROUND(25,-1)', expected=30, note='tie away from zero, negative digits'))
    ctx.sample(dict(formula='=TRUNC(0.29,2)', expected=0.29, note='exact multiple is fixed'))
    ctx.sample(dict(formula='=FLOOR(0.3,0.1)', expected=0.3))
    ctx.counts['traces_validated_against_impl'] = ctx.counts.get('evaluations', 0)


def replay(case):
    ev = feval.Evaluator()
    if case.get('fresh_thread') or case['kind'] == 'argform':
        hits = []
        for name in ('work_extremes', 'work_mod', 'work_argforms'):
            r = work_threaded((name, (0,))) if case.get('fresh_thread') else globals()[name]((0,))
            keys = [k for k in case if k not in ('fresh_thread', 'observed', 'expected', 'exc', 'int_part')]
            hits += [m for c, m in r['violations'] if all(c.get(k) == case.get(k) for k in keys)]
            if case['kind'] == 'argform' and not case.get('fresh_thread') and name != 'work_argforms':
                hits = []
        return bool(hits), '\n'.join(hits[:2]) or 'no violation'
    if case['kind'] in ('round', 'artefact'):
        x = case['x']
        fn = case['fn'].rstrip('1')
        if case.get('digits') is None:
            o = ev.run(f'={fn}(A1)', {'A1': x})
            return True, f'={fn}({x!r}) -> {o[:2]!r}; expected {case.get("expected")!r}'
        o = ev.run(f'={fn}(A1,B1)', {'A1': x, 'B1': case['digits']})
        mode = {'ROUND': 'half', 'ROUNDDOWN': 'down', 'ROUNDUP': 'up', 'TRUNC': 'down'}.get(fn)
        if mode is None:
            return True, f'{o[:2]!r}'
        e = expect_round(x, case['digits'], mode)
        return o[0] != 'ok' or isinstance(o[1], bool) or o[1] != e, f"={fn}({x!r},{case['digits']}) -> {o[:2]!r}; exact {e!r}"
    if case['kind'] == 'bracket':
        o = ev.run(f"={case['fn']}(A1,B1)", {'A1': case['x'], 'B1': case['sig']})
        exp = bracket_expected(case['fn'], F(case['x']), F(case['sig']))
        return True, f"={case['fn']}({case['x']!r},{case['sig']!r}) -> {o[:2]!r}; acceptable {[e if isinstance(e, str) else fl(e) for e in (exp or [])]}"
    if case['kind'] == 'thread':
        r = work_fresh_thread((0,))
        hits = [m for c, m in r['violations']]
        return bool(hits), '\n'.join(hits[:3]) or 'no violation'
    r = work_mod((0,))
    hits = [m for c, m in r['violations'] if c['n'] == case['n'] and c['d'] == case['d']]
    return bool(hits), '\n'.join(hits[:2]) or 'no violation'
