"""C10 -- operators are total and follow Excel coercion / error / ordering rules (complete pool sweep)."""
import itertools
import math

from mc import feval, wb as W
from mc.ref import ops as R
from mc.runner import Acc

ID = 'C10'
LEVEL = 'model_checking'
RULE = ('every operator x every ordered pair of the value pool (cell-reference form through a compiled formula; '
        'literal form where a literal spelling exists; cell x literal and literal x cell for the core pool; a subset again through ExcelCompiler.evaluate on a real '
        'workbook), each compared with a reference coercion/ordering table written from the statement; order axioms '
        '(trichotomy, complements, transitivity on all triples) checked on the tabulated relation. '
        'distinct_nontrivial = distinct (op, a, b) with at least one non-number operand or an error-producing rule.')
ASSUMPTIONS = ['text "TRUE"/"FALSE", space-padded numeric text, 0^0 and renderings of |x|>=1e15 or <1e-4 are not pinned by the statement and are checked for totality only',
               'numbers compared with relative tolerance 1e-12 (int vs float arithmetic)']

POOL = [0, 1, -1, 2, 3, 0.5, -2.5, 100,
        '1', '-2.5', '3.0',
        '', 'a', 'A', 'b', 'abc',
        True, False, None] + list(R.ERRORS)
EXT = [1234567, 3.14159265, 0.1, 0.2, 1000, -1000, 12345.678, 7.0, -0.5, '1e2', '5E-1', '-2e1', '2.50', 'B', 'aB', ' ', '1 ', 'TRUE', 10,
       'inf', 'nan', '1e400', '1_000', '\u00b2', '12\u00b3', '\u2460',       # superscript / circled digits: str.isdigit() but not numbers
       0.3, 0.30000000000000004, 1.0000000000000002]      # distinct numbers that agree to 15 significant digits: one of < = > only
BIN_OPS = ['+', '-', '*', '/', '^', '&', '=', '<>', '<', '<=', '>', '>=']
ALL_OPS = BIN_OPS + ['neg', '%']


def formula_for(op, l='A1', r='B1'):
    if op == 'neg':
        return f'=-{l}'
    if op == '%':
        return f'={l}%'
    return f'={l}{op}{r}'


def type_ok(v):
    k = W.kind(v)
    if k == 'number':
        try:
            return isinstance(v, (int, float)) and not isinstance(v, bool) and math.isfinite(v)
        except OverflowError:
            return False
    return k in ('text', 'bool', 'error')


def judge(op, a, b, obs):
    """returns None or message"""
    if obs[0] != 'ok':
        return f'raised {obs[1]}: {obs[2][-160:]}'
    v = obs[1]
    if not type_ok(v):
        return f'yielded {type(v).__name__} {v!r}, not a number/text/logical/error'
    exp = R.apply(op, a, b)
    if exp is R.UNPINNED:
        return None
    if not W.vclose(v, exp, rel=1e-12, abs_=0.0):
        return f'= {W.show(v)}, reference semantics give {W.show(exp)}'
    return None


def nontrivial(op, a, b):
    return not (isinstance(a, (int, float)) and not isinstance(a, bool)
                and isinstance(b, (int, float)) and not isinstance(b, bool)) or (op in ('/', '^'))


def literal(v):
    if isinstance(v, bool):
        return 'TRUE' if v else 'FALSE'
    if isinstance(v, (int, float)):
        return repr(v) if v >= 0 else None
    if isinstance(v, str):
        if v in R.ERRORS:
            return v
        return '"' + v.replace('"', '""') + '"'
    return None


def work(job):
    op, mode, values = job
    if op == '^':     # moderate magnitude: python computes int ** int exactly, Excel overflows to #NUM!
        values = [v for v in values if not isinstance(v, (int, float)) or isinstance(v, bool) or abs(v) <= 100]
    acc = Acc()
    ev = feval.Evaluator()
    table = {}
    if mode == 'cells':
        f = formula_for(op)
        pairs = itertools.product(range(len(values)), repeat=2) if op in BIN_OPS else ((i, 0) for i in range(len(values)))
        for i, j in pairs:
            a, b = values[i], values[j]
            obs = ev.run(f, {'A1': a, 'B1': b})
            acc.add('evaluations')
            if nontrivial(op, a, b):
                acc.add('distinct_nontrivial')
            msg = judge(op, a, b, obs)
            acc.outcome(repr(W.tag(obs[1])) if obs[0] == 'ok' else obs[1])
            if msg:
                acc.violation(dict(kind='pair', op=op, a=a, b=b, form='cells', a_t=W.kind(a), b_t=W.kind(b),
                                   observed=obs), f'{formula_for(op, repr(a), repr(b))} (cell operands) {msg}')
            if op in R.CMP:
                table[(i, j)] = obs[1] if obs[0] == 'ok' else None
        if op in R.CMP:
            acc.notes['table'] = {f'{i},{j}': v for (i, j), v in table.items()}
    elif mode == 'literals':
        lits = [(v, literal(v)) for v in values if literal(v) is not None]
        pairs = itertools.product(lits, repeat=2) if op in BIN_OPS else ((x, lits[0]) for x in lits)
        for (a, la), (b, lb) in pairs:
            f = formula_for(op, la, lb)
            obs = ev.run(f, {})
            acc.add('evaluations')
            acc.add('literal_forms')
            msg = judge(op, a, b, obs)
            if msg:
                acc.violation(dict(kind='pair', op=op, a=a, b=b, form='literals', a_t=W.kind(a), b_t=W.kind(b),
                                   observed=obs), f'{f} {msg}')
    elif mode in ('cell-literal', 'literal-cell'):
        # one operand read from a cell, the other written in the formula: the two are compiled differently
        lits = [(v, literal(v)) for v in values if literal(v) is not None]
        for a in values:
            for (b, lb) in lits:
                if mode == 'cell-literal':
                    f, env, x, y = formula_for(op, 'A1', lb), {'A1': a}, a, b
                else:
                    f, env, x, y = formula_for(op, lb, 'B1'), {'B1': a}, b, a
                obs = ev.run(f, env)
                acc.add('evaluations')
                acc.add('mixed_forms')
                msg = judge(op, x, y, obs)
                if msg:
                    acc.violation(dict(kind='pair', op=op, a=x, b=y, form=mode, a_t=W.kind(x), b_t=W.kind(y),
                                       observed=obs), f'{f} with {env} {msg}')
    elif mode == 'numpy':
        # numbers arriving as numpy scalars (what SLOPE / FORECAST / INTERCEPT return): plain numbers to every operator,
        # and the result is a python number / text / logical, not a numpy type
        import numpy as np
        nps = [np.float64(2.5), np.float64(-1.0), np.float64(3.0), np.int64(3), np.float64(0.0)]
        f = formula_for(op)
        for x in nps:
            for y in list(values) + nps:
                for a, b in ((x, y), (y, x)):
                    obs = ev.run(f, {'A1': a, 'B1': b})
                    acc.add('evaluations')
                    acc.add('numpy_operands')
                    pa = a.item() if isinstance(a, np.generic) else a
                    pb = b.item() if isinstance(b, np.generic) else b
                    msg = judge(op, pa, pb, obs)
                    if not msg and obs[0] == 'ok' and not isinstance(obs[1], (int, float, str, bool, np.integer, np.floating)):
                        msg = f'yielded {type(obs[1]).__name__} {obs[1]!r}, not a number/text/logical/error'
                    if msg:
                        acc.violation(dict(kind='pair', op=op, a=repr(a), b=repr(b), form='numpy', a_t=W.kind(pa), b_t=W.kind(pb),
                                           observed=obs), f'{formula_for(op, repr(a), repr(b))} (numpy scalar operands) {msg}')
    elif mode == 'workbook':
        n = len(values)
        cells = {f'A{i + 1}': v for i, v in enumerate(values) if v is not None}
        k = 0
        where = {}
        for i in range(n):
            for j in (range(n) if op in BIN_OPS else [0]):
                k += 1
                coord = f'{W.get_column_letter(3 + (k - 1) // 1000)}{(k - 1) % 1000 + 1}'
                cells[coord] = formula_for(op, f'A{i + 1}', f'A{j + 1}')
                where[coord] = (i, j)
        m = W.compile_inmem({'sheets': {'S': cells}, 'active': 'S'})
        for coord, (i, j) in where.items():
            a, b = values[i], values[j]
            try:
                obs = ('ok', m.evaluate('S!' + coord))
            except Exception as exc:
                obs = ('exc', type(exc).__name__, str(exc)[-300:])
            acc.add('evaluations')
            acc.add('through_workbook')
            msg = judge(op, a, b, obs)
            if msg:
                acc.violation(dict(kind='pair', op=op, a=a, b=b, form='workbook', a_t=W.kind(a), b_t=W.kind(b),
                                   observed=obs), f'{cells[coord]} with A{i + 1}={a!r}, A{j + 1}={b!r} (workbook) {msg}')
    return acc.result()


EXT_THOROUGH = [4, 5, 7, 9, 10.5, -3, -7, 0.25, 0.75, 1.5, 99, 101, 999.5, 1e-3, -1e-3, 123456, '0', '00', '1.0', '-0', '+1', '.5', '5.',
                'Abc', 'ABC', 'abd', 'ab', 'a b', 'é', 'É', 'z', 'Z', '_', '~', '0a', 'a0', 'true', 'False', '#N/A!', 'N/A', '#n/a',
                '-inf', 'Infinity', 'NaN', '-1e999', '1e-400', '1__0', '_1', '0x10', '\u0661\u0662']


def run(ctx):
    values = POOL + EXT + (EXT_THOROUGH if ctx.thorough else [])
    k = ctx.seed % len(values)
    values = values[k:] + values[:k]          # rotation only; the set is always complete
    jobs = [(op, 'cells', values) for op in ALL_OPS]
    jobs += [(op, 'literals', values) for op in ALL_OPS]
    jobs += [(op, mode, values if ctx.thorough else POOL) for op in BIN_OPS for mode in ('cell-literal', 'literal-cell')]
    jobs += [(op, 'numpy', POOL) for op in ALL_OPS]
    wb_ops = ALL_OPS if ctx.thorough else ['+', '&', '<', '^']
    wb_vals = values if ctx.thorough else POOL
    jobs += [(op, 'workbook', wb_vals) for op in wb_ops]
    ctx.pmap(work, jobs, timeout=1200)
    ctx.extra['pool'] = [repr(v) for v in values]
    ctx.extra['operators'] = ALL_OPS
    # ---- order axioms on the tabulated relations (values obtained from the real code above)
    tabs = ctx.notes.pop('table', None)
    # notes['table'] is overwritten per job; recompute tables here directly (cheap) to have all six
    ev = feval.Evaluator()
    n = len(values)
    T = {}
    for op in R.CMP:
        f = formula_for(op)
        for i in range(n):
            for j in range(n):
                o = ev.run(f, {'A1': values[i], 'B1': values[j]})
                T[(op, i, j)] = o[1] if o[0] == 'ok' else ('exc', o[1])
    plain = [i for i, v in enumerate(values) if not R.is_err(v)]
    for i in plain:
        for j in plain:
            lt, eq, gt = T[('<', i, j)], T[('=', i, j)], T[('>', i, j)]
            ne, le, ge = T[('<>', i, j)], T[('<=', i, j)], T[('>=', i, j)]
            ctx.add('evaluations')
            ctx.add('order_axiom_pairs')
            a, b = values[i], values[j]
            if not all(isinstance(x, bool) for x in (lt, eq, gt, ne, le, ge)):
                ctx.violation(dict(kind='axiom', axiom='logical-result', a=a, b=b, a_t=W.kind(a), b_t=W.kind(b)),
                              f'comparison of {a!r},{b!r} not all logical: {(lt, eq, gt, ne, le, ge)}')
                continue
            if [lt, eq, gt].count(True) != 1:
                ctx.violation(dict(kind='axiom', axiom='trichotomy', a=a, b=b, a_t=W.kind(a), b_t=W.kind(b)),
                              f'{a!r} vs {b!r}: <,=,> = {(lt, eq, gt)} (exactly one must hold)')
            if ne != (not eq) or le != (lt or eq) or ge != (gt or eq):
                ctx.violation(dict(kind='axiom', axiom='complements', a=a, b=b, a_t=W.kind(a), b_t=W.kind(b)),
                              f'{a!r} vs {b!r}: <>,<=,>= = {(ne, le, ge)} not complements of {(lt, eq, gt)}')
            if T[('<', j, i)] != gt or T[('=', j, i)] != eq:
                ctx.violation(dict(kind='axiom', axiom='antisymmetry', a=a, b=b, a_t=W.kind(a), b_t=W.kind(b)),
                              f'{a!r} vs {b!r}: a>b {gt} but b<a {T[("<", j, i)]}; a=b {eq} but b=a {T[("=", j, i)]}')
    nb = [i for i in plain if values[i] is not None]
    ntr = 0
    for i in nb:
        for j in nb:
            if T[('<=', i, j)] is not True:
                continue
            for k2 in nb:
                ntr += 1
                if T[('<=', j, k2)] is True and T[('<=', i, k2)] is not True:
                    ctx.violation(dict(kind='axiom', axiom='transitivity', a=values[i], b=values[j], c=values[k2]),
                                  f'{values[i]!r} <= {values[j]!r} <= {values[k2]!r} but not {values[i]!r} <= {values[k2]!r}')
    ctx.add('transitivity_triples', ntr)
    ctx.add('evaluations', 0)
    ctx.sample({'formula': '=A1^B1', 'A1': -2.5, 'B1': 0.5, 'expected': '#NUM!'})
    ctx.sample({'formula': '=A1&B1', 'A1': 3.0, 'B1': True, 'expected': '3TRUE'})
    ctx.sample({'formula': '=A1<B1', 'A1': 'abc', 'B1': False, 'expected': True})
    ctx.counts['states'] = ctx.counts['evaluations']
    ctx.counts['transitions'] = ctx.counts['evaluations']


def replay(case):
    ev = feval.Evaluator()
    if case['kind'] == 'pair':
        op, a, b = case['op'], case['a'], case['b']
        if case['form'] == 'literals':
            f = formula_for(op, literal(a), literal(b))
            obs = ev.run(f, {})
        elif case['form'] == 'numpy':
            import numpy as np
            a, b = eval(a, {'np': np}) if isinstance(a, str) and a.startswith('np.') else a, eval(b, {'np': np}) if isinstance(b, str) and b.startswith('np.') else b
            f = formula_for(op)
            obs = ev.run(f, {'A1': a, 'B1': b})
            ok_type = obs[0] != 'ok' or isinstance(obs[1], (int, float, str, bool, np.integer, np.floating))
            pa = a.item() if isinstance(a, np.generic) else a
            pb = b.item() if isinstance(b, np.generic) else b
            msg = judge(op, pa, pb, obs) or (None if ok_type else f'yielded {type(obs[1]).__name__}')
            return bool(msg), f'{f} with A1={a!r} B1={b!r}: observed {obs!r}; {msg or "agrees with reference"}'
        elif case['form'] == 'cell-literal':
            f = formula_for(op, 'A1', literal(b))
            obs = ev.run(f, {'A1': a})
        elif case['form'] == 'literal-cell':
            f = formula_for(op, literal(a), 'B1')
            obs = ev.run(f, {'B1': b})
        else:
            f = formula_for(op)
            obs = ev.run(f, {'A1': a, 'B1': b})
        msg = judge(op, a, b, obs)
        return bool(msg), f'{f} with A1={a!r} B1={b!r}: observed {obs!r}; {msg or "agrees with reference"}'
    else:
        a, b = case['a'], case['b']
        res = {op: ev.run(formula_for(op), {'A1': a, 'B1': b}) for op in R.CMP}
        txt = f'{a!r} vs {b!r}: ' + ', '.join(f'{op}:{r[1] if r[0] == "ok" else r}' for op, r in res.items())
        if case['axiom'] == 'transitivity':
            c = case['c']
            r1 = ev.run('=A1<=B1', {'A1': a, 'B1': b})[1]
            r2 = ev.run('=A1<=B1', {'A1': b, 'B1': c})[1]
            r3 = ev.run('=A1<=B1', {'A1': a, 'B1': c})[1]
            return (r1 is True and r2 is True and r3 is not True), f'{a!r}<={b!r}:{r1} {b!r}<={c!r}:{r2} {a!r}<={c!r}:{r3}'
        lt, eq, gt = (res[o][1] for o in ('<', '=', '>'))
        ne, le, ge = (res[o][1] for o in ('<>', '<=', '>='))
        bad = ([lt, eq, gt].count(True) != 1) or ne != (not eq) or le != (lt or eq) or ge != (gt or eq)
        return bad, txt
