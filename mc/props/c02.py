"""C02 -- formula translation is meaning preserving (bounded-exhaustive ASTs x renderings x environments; literals)."""
import itertools

from mc import feval, wb as W
from mc.ref import ops as R
from mc.runner import Acc, jsonable

ID = 'C02'
LEVEL = 'model_checking'
RULE = ('all expression ASTs with <= 2 binary operators over 10 operators (every precedence level and the twins sharing '
        'one), every bracketing shape, prefix -, prefix + and postfix % at every node (<= 2 per term), atoms from numbers '
        'and cell references, SUM()/IF() calls as atoms, plus all 3-operator shapes without decorations; each AST is '
        'rendered from the tree (minimal parentheses per the grammar of the statement, fully parenthesised, redundant '
        'double parentheses, spaces, function-name case) and evaluated through the real compile pipeline under 6 cell '
        'environments; expected value = direct recursive evaluation of the generated AST (no second parser). Literals: '
        'every text literal of length <= 3 (2 quick) over an 11-character alphabet incl. doubled quotes, backslash, '
        'newline, tab, braces; number spellings; logical and error literals. distinct_nontrivial = distinct ASTs '
        'whose minimal rendering differs from the fully parenthesised one (grouping is decided by precedence).')
ASSUMPTIONS = ['literals are spelled as Excel stores them (TRUE/FALSE upper case, no leading zeros: Excel normalises both on entry)',
               'operator semantics from mc/ref/ops.py (the C10 reference); cases it leaves unpinned are skipped',
               'exponents are kept <= 64 (python computes int ** int exactly)',
               'numeric results compared with relative tolerance 1e-12']
GROUP = ('kind', 'verdict', 'render')

BINOPS = ['^', '*', '/', '+', '-', '&', '=', '<', '<>', '>=']
PREC = {'^': 5, '*': 4, '/': 4, '+': 3, '-': 3, '&': 2, '=': 1, '<': 1, '<>': 1, '>=': 1, '<=': 1, '>': 1}
ENVS = [{'A1': 3, 'B1': '4'}, {'A1': 'x', 'B1': True}, {'A1': None, 'B1': 2}, {'A1': '#N/A', 'B1': 1},
        {'A1': 0.5, 'B1': -2}, {'A1': True, 'B1': None}]


class Skip(Exception):
    pass


# ------------------------------------------------------------------ AST evaluation (reference)
def ev(node, env):
    k = node[0]
    if k == 'num':
        return float(node[1]) if ('.' in node[1] or 'E' in node[1].upper()) else int(node[1])
    if k == 'ref':
        return env.get(node[1])
    if k == 'lit':
        return node[2]
    if k == 'neg':
        v = R.apply('neg', ev(node[1], env))
    elif k == 'pos':
        v = ev(node[1], env)
        if v is None:
            raise Skip()
        return v
    elif k == 'pct':
        v = R.apply('%', ev(node[1], env))
    elif k == 'bin':
        a, b = ev(node[2], env), ev(node[3], env)
        if node[1] == '^':
            nb = R.num(b)
            na = R.num(a)
            if isinstance(nb, (int, float)) and abs(nb) > 64 or isinstance(na, (int, float)) and abs(na) > 1e6:
                raise Skip()
        v = R.apply(node[1], a, b)
    elif k == 'sum':
        tot = 0
        for arg in node[1]:
            x = ev(arg, env)
            if R.is_err(x):
                return x
            real = isinstance(x, (int, float)) and not isinstance(x, bool)
            if arg[0] == 'ref':
                if real:
                    tot += x        # text / logicals / blanks inside a reference are ignored by SUM
            elif real:
                tot += x
            else:
                raise Skip()        # direct non-number arguments of SUM are not pinned by this property
        return tot
    elif k == 'if':
        c = ev(node[1], env)
        if R.is_err(c):
            return c
        if isinstance(c, str):
            raise Skip()
        branch = node[2] if (c not in (None, 0, False)) else node[3]
        v = ev(branch, env)
        if v is None:
            raise Skip()
        return v
    else:
        raise ValueError(k)
    if v is R.UNPINNED:
        raise Skip()
    if isinstance(v, (int, float)) and not isinstance(v, bool) and abs(v) > 1e200:
        raise Skip()
    return v


# ------------------------------------------------------------------ rendering
def render(node, style, parent_prec=0, side=None):
    """style: 'min' | 'full' | 'double' ; spacing/case handled afterwards"""
    k = node[0]
    if k == 'num' or k == 'ref' or k == 'lit':
        return node[1]
    if k == 'neg' or k == 'pos':
        sign = '-' if k == 'neg' else '+'
        inner = node[1]
        s = render(inner, style, 9, 'u')
        if style == 'min':
            if inner[0] in ('bin', 'pct'):
                s = '(' + s + ')'
            txt = sign + s
            # a prefix operator directly after a binary operator or at the start needs no parentheses;
            # under a postfix % it binds tighter already
            return txt
        txt = sign + s
        return '(' + txt + ')' if style == 'full' else '((' + txt + '))'
    if k == 'pct':
        inner = node[1]
        s = render(inner, style, 8, 'p')
        if style == 'min':
            if inner[0] == 'bin':
                s = '(' + s + ')'
            return s + '%'
        return '(' + s + '%)' if style == 'full' else '((' + s + '%))'
    if k == 'bin':
        op, l, r = node[1], node[2], node[3]
        p = PREC[op]
        ls = render(l, style, p, 'l')
        rs = render(r, style, p, 'r')
        if style == 'min':
            if l[0] == 'bin' and PREC[l[1]] < p:
                ls = '(' + ls + ')'
            if r[0] == 'bin' and PREC[r[1]] <= p:
                rs = '(' + rs + ')'
            return f'{ls}{op}{rs}'
        txt = f'{ls}{op}{rs}'
        return '(' + txt + ')' if style == 'full' else '((' + txt + '))'
    if k == 'sum':
        return 'SUM(' + ','.join(render(x, style if style != 'double' else 'full') for x in node[1]) + ')'
    if k == 'if':
        return 'IF(' + ','.join(render(x, style if style != 'double' else 'full') for x in node[1:]) + ')'
    raise ValueError(k)


def spaced(text):
    out = []
    i = 0
    n = len(text)
    prev_operand = False
    while i < n:
        two = text[i:i + 2]
        c = text[i]
        if two in ('<>', '>=', '<=') and prev_operand:
            out.append(' ' + two + ' ')
            i += 2
            prev_operand = False
            continue
        if c in '^*/&=<>' and prev_operand:
            out.append(' ' + c + ' ')
            prev_operand = False
        elif c in '+-':
            if prev_operand:
                out.append(' ' + c + ' ')
                prev_operand = False
            else:
                out.append(c)
        elif c == ',':
            out.append(', ')
            prev_operand = False
        elif c == '(':
            out.append('( ')
            prev_operand = False
        elif c == ')':
            out.append(' )')
            prev_operand = True
        else:
            out.append(c)
            prev_operand = True
        i += 1
    return ''.join(out)


def renderings(node):
    m = render(node, 'min')
    f = render(node, 'full')
    yield 'min', m
    yield 'full', f
    yield 'double', render(node, 'double')
    if "'lit'" in repr(node):
        return          # the character-level spacer would split "#DIV/0!" or "-2.5"
    yield 'spaces', spaced(m)
    yield 'lower', m.replace('SUM(', 'sum(').replace('IF(', 'If(')


# ------------------------------------------------------------------ enumeration
ATOMS = [('num', '2'), ('num', '3'), ('num', '5'), ('num', '0.5')]


def shapes(n_ops):
    """all binary tree shapes with n_ops internal nodes; leaves numbered left to right"""
    if n_ops == 0:
        return [('leaf',)]
    out = []
    for k in range(n_ops):
        for l in shapes(k):
            for r in shapes(n_ops - 1 - k):
                out.append(('node', l, r))
    return out


def build(shape, ops, leaves, it_ops=None, it_leaves=None):
    it_ops = it_ops if it_ops is not None else iter(ops)
    it_leaves = it_leaves if it_leaves is not None else iter(leaves)

    def rec(s):
        if s[0] == 'leaf':
            return next(it_leaves)
        l = rec(s[1])
        # operators are assigned in in-order so that the textual order is ops[0], ops[1], ...
        op = next(it_ops)
        r = rec(s[2])
        return ('bin', op, l, r)
    return rec(shape)


def nodes_paths(node, path=()):
    yield path
    if node[0] == 'bin':
        yield from nodes_paths(node[2], path + (2,))
        yield from nodes_paths(node[3], path + (3,))


def decorate(node, path, deco):
    if not path:
        return (deco, node)
    lst = list(node)
    lst[path[0]] = decorate(node[path[0]], path[1:], deco)
    return tuple(lst)


def asts(thorough):
    leaf_sets = [ATOMS, [('ref', 'A1'), ('ref', 'B1'), ('num', '5'), ('num', '2')],
                 [('num', '3'), ('sum', [('num', '2'), ('ref', 'A1')]), ('if', ('bin', '<', ('ref', 'A1'), ('num', '3')), ('num', '5'), ('ref', 'B1')), ('num', '2')]]
    # text, logical and error LITERALS as operands (an operator applied to a literal is compiled differently from one
    # applied to a reference or a number)
    leaf_sets.append([('lit', '"3"', '3'), ('lit', 'TRUE', True), ('num', '2'), ('lit', '#N/A', '#N/A')])
    leaf_sets.append([('lit', '"abc"', 'abc'), ('lit', '""', ''), ('lit', 'FALSE', False), ('lit', '#DIV/0!', '#DIV/0!')])
    leaf_sets.append([('lit', '"-2.5"', '-2.5'), ('ref', 'A1'), ('lit', '"B"', 'B'), ('num', '0.5')])
    for n in (1, 2):
        for shape in shapes(n):
            for ops in itertools.product(BINOPS, repeat=n):
                for leaves in leaf_sets:
                    base = build(shape, ops, leaves)
                    yield base
                    paths = list(nodes_paths(base))
                    decos = ['neg', 'pct'] + (['pos'] if thorough or leaves is ATOMS else [])
                    if leaves is not ATOMS and not thorough and n == 2:
                        continue
                    for p in paths:
                        for d in decos:
                            yield decorate(base, p, d)
                    if leaves is ATOMS or thorough:
                        for p1, p2 in itertools.combinations(paths, 2):
                            for d1, d2 in itertools.product(['neg', 'pct'], repeat=2):
                                yield decorate(decorate(base, p2, d2), p1, d1)
                        for p in paths:
                            yield decorate(decorate(base, p, 'neg'), p, 'pct')     # (-x)% written -x%
                            yield decorate(decorate(base, p, 'pct'), p, 'neg')     # -(x%)
                            yield decorate(decorate(base, p, 'neg'), p, 'neg')
    for shape in shapes(3):
        for ops in itertools.product(BINOPS if thorough else ['^', '*', '-', '&', '<', '='], repeat=3):
            yield build(shape, ops, ATOMS)


def work_asts(job):
    k, n, thorough = job
    acc = Acc()
    evr = feval.Evaluator()
    for i, node in enumerate(asts(thorough)):
        if i % n != k:
            continue
        uses_ref = 'ref' in repr(node)
        envs = ENVS if uses_ref else [ENVS[0]]
        rs = list(renderings(node))
        if rs[0][1] != rs[1][1].replace('(', '').replace(')', '') or '(' in rs[0][1]:
            pass
        nontrivial = rs[0][1] != rs[1][1]
        counted = False
        for env in envs:
            try:
                exp = ev(node, env)
            except Skip:
                acc.add('skipped_unpinned')
                continue
            except (OverflowError, ZeroDivisionError):
                acc.add('skipped_unpinned')
                continue
            if not counted:
                acc.add('states')
                if nontrivial:
                    acc.add('distinct_nontrivial')
                counted = True
            got = {}
            for rname, text in (rs if env is envs[0] else rs[:2]):
                obs = evr.run('=' + text, env)
                acc.add('evaluations')
                got[rname] = obs
                if obs[0] != 'ok':
                    acc.violation(dict(kind='ast', verdict='raised', render=rname, formula='=' + text, env=jsonable(env),
                                       exc=obs[1], expected=jsonable(exp)),
                                  f'={text} with {env} raised {obs[1]}: {obs[2][-120:]}')
                    continue
                if not W.vclose(obs[1], exp, rel=1e-12, abs_=0.0):
                    agree = 'min' in got and 'full' in got and got['min'][0] == 'ok' and got['full'][0] == 'ok' and \
                        W.vclose(got['min'][1], got['full'][1], rel=1e-12, abs_=0.0)
                    acc.violation(dict(kind='ast', verdict='wrong-value', render=rname, formula='=' + text, env=jsonable(env),
                                       observed=jsonable(obs[1]), expected=jsonable(exp), ast=jsonable(node),
                                       renderings_agree=agree),
                                  f'={text} with {env} = {W.show(obs[1])}, the formula tree {rs[1][1]} means {W.show(exp)}')
            acc.outcome(repr(W.tag(exp))[:40])
    acc.counts['transitions'] = acc.counts.get('evaluations', 0)
    return acc.result()


# ------------------------------------------------------------------ literals
ALPHA = ['a', '"', '\\', '\n', '\t', '{', '}', "'", '#', 'é', ' ', '\U0001F600']
NUMBERS = [('0', 0), ('1', 1), ('1.5', 1.5), ('.5', 0.5), ('5.', 5.0), ('1E3', 1000.0), ('1.5e-3', 0.0015), ('1E+3', 1000.0),
           ('1e3', 1000.0), ('12345678901', 12345678901), ('0.1', 0.1)]


def work_literals(job):
    k, n, maxlen = job
    acc = Acc()
    evr = feval.Evaluator()
    i = 0
    for L in range(0, maxlen + 1):
        for chars in itertools.product(ALPHA, repeat=L):
            i += 1
            if i % n != k:
                continue
            s = ''.join(chars)
            lit = '"' + s.replace('"', '""') + '"'
            for form, text, exp in (('alone', '=' + lit, s), ('concat', '=' + lit + '&"|"&' + lit, s + '|' + s),
                                    ('len', '=LEN(' + lit + ')', len(s))):
                obs = evr.run(text, {})
                acc.add('evaluations')
                acc.add('states')
                if any(c in s for c in '"\\\n\t{}'):
                    acc.add('distinct_nontrivial')
                if obs[0] != 'ok':
                    acc.violation(dict(kind='literal', verdict='raised', render=form, formula=text, exc=obs[1], chars=list(chars)),
                                  f'text literal {lit!r} ({form}): {text!r} raised {obs[1]}: {obs[2][-100:]}')
                    break
                want = exp if not (form == 'alone' and s == '') else s
                if not W.veq(obs[1], want) and not (form == 'alone' and s == '' and obs[1] in ('', 0)):
                    acc.violation(dict(kind='literal', verdict='wrong-value', render=form, formula=text, observed=jsonable(obs[1]),
                                       expected=jsonable(want), chars=list(chars)),
                                  f'text literal {lit!r} ({form}): {text!r} = {obs[1]!r}, expected {want!r}')
                    break
    if k == 0:
        for text, exp in NUMBERS:
            for f, e in (('=' + text, exp), ('=' + text + '+0', exp), ('=-' + text, -exp)):
                obs = evr.run(f, {})
                acc.add('evaluations')
                acc.add('states')
                if obs[0] != 'ok' or not W.vclose(obs[1], e, rel=1e-15, abs_=0):
                    acc.violation(dict(kind='literal', verdict='wrong-value', render='number', formula=f, observed=jsonable(obs[1:]),
                                       expected=e),
                                  f'number literal {f} = {obs[1:]!r}, expected {e!r}')
        for text, exp in (('TRUE', True), ('FALSE', False), ('TRUE()', True), ('FALSE()', False)):
            obs = evr.run('=' + text, {})
            acc.add('evaluations')
            if obs[0] != 'ok' or not W.veq(obs[1], exp):
                acc.violation(dict(kind='literal', verdict='wrong-value', render='logical', formula='=' + text,
                                   observed=jsonable(obs[1:]), expected=exp),
                              f'logical literal ={text} = {obs[1:]!r}')
        for e in R.ERRORS:
            for f in ('=' + e, '=' + e + '&"x"', '=1+' + e, '=IF(TRUE,' + e + ',1)'):
                obs = evr.run(f, {})
                acc.add('evaluations')
                if obs[0] != 'ok' or obs[1] != e:
                    acc.violation(dict(kind='literal', verdict='wrong-value', render='error', formula=f, observed=jsonable(obs[1:]),
                                       expected=e),
                                  f'error literal {f} = {obs[1:]!r}, expected {e!r}')
        acc.sample(dict(literal='"a""\\b"', formula='="a""\\b"', expected='a"\\b'))
    acc.counts['transitions'] = acc.counts.get('evaluations', 0)
    return acc.result()


def run(ctx):
    n = 64
    ctx.pmap(work_asts, [((k + ctx.seed) % n, n, ctx.thorough) for k in range(n)], timeout=3000)
    m = 16
    ctx.pmap(work_literals, [(k, m, 3 if ctx.thorough else 2) for k in range(m)], timeout=3000)
    ctx.sample(dict(ast=['bin', '^', ['neg', ['num', '2']], ['num', '2']], min='-2^2', full='((-2)^2)', expected=4))
    ctx.sample(dict(ast=['bin', '-', ['num', '2'], ['bin', '-', ['num', '3'], ['num', '5']]], min='2-(3-5)', expected=4))
    ctx.counts['traces_validated_against_impl'] = ctx.counts.get('evaluations', 0)
    ctx.extra['operators'] = BINOPS
    ctx.extra['environments'] = [repr(e) for e in ENVS]


def replay(case):
    evr = feval.Evaluator()
    obs = evr.run(case['formula'], case.get('env') or {})
    exp = case.get('expected')
    if case['verdict'] == 'raised':
        return obs[0] != 'ok', f"{case['formula']} env={case.get('env')} -> {obs!r}"
    bad = obs[0] != 'ok' or not W.vclose(obs[1], exp, rel=1e-12, abs_=0.0)
    return bad, f"{case['formula']} env={case.get('env')} -> {obs!r}; expected {exp!r}"
