"""C06 -- iterative calculation: bounded passes, tolerance honest, agrees with plain evaluation on acyclic workbooks."""
import itertools
import shutil
import tempfile
from fractions import Fraction

from mc import explore, family, plugins, wb as W
from mc.props import c01
from mc.runner import Acc, jsonable

ID = 'C06'
LEVEL = 'model_checking'
RULE = ('(a) every linear circular system x = Ax + b of the enumerated family (n <= 3, entries from a small pool, '
        '||A||inf < 1, cyclic digraph; cell-reference and through-a-range spellings) x every (iterations, tolerance) pair '
        'x every choice of the cell brought into the model first x set_value of a b cell followed by re-evaluation, run '
        'on the real compiler with every cycle formula wrapped in a logging plugin: passes <= iterations; if it stopped '
        'early every cell moved <= tolerance in the last pass and the result is within q/(1-q) x tolerance of the exact '
        '(Fraction) fixed point. (b) BFS over set_value/evaluate histories on acyclic workbooks compiled with cycles '
        'enabled, each evaluate compared with a plain from-scratch model. distinct_nontrivial = systems x settings that '
        'needed more than one pass, plus invalidating transitions of (b).')
ASSUMPTIONS = ['a pass = one evaluation of the requested cell\'s formula (counted by the logging plugin)',
               'error bound judged with relative slack 1e-5 and absolute 1e-12',
               'exact fixed point by Gaussian elimination over Fractions']
GROUP = ('part', 'verdict', 'spelling', 'origin')

ENTRIES = [0, 0.25, 0.5, -0.5]
BS = [0, 1, 10]
SETTINGS_IT = [1, 2, 3, 5, 50, 1000]
SETTINGS_TOL = [1, 0.1, 1e-3, 1e-9]


def solve(A, b):
    n = len(A)
    M = [[Fraction(int(i == j)) - Fraction(A[i][j]).limit_denominator(1000) for j in range(n)] +
         [Fraction(b[i]).limit_denominator(1000)] for i in range(n)]
    for c in range(n):
        p = next(r for r in range(c, n) if M[r][c] != 0)
        M[c], M[p] = M[p], M[c]
        M[c] = [x / M[c][c] for x in M[c]]
        for r in range(n):
            if r != c and M[r][c] != 0:
                M[r] = [x - M[r][c] * y for x, y in zip(M[r], M[c])]
    return [M[i][n] for i in range(n)]


def cyclic(A):
    n = len(A)
    # every node lies on a cycle reachable from node 0 and the digraph of nonzero entries has a cycle
    adj = {i: [j for j in range(n) if A[i][j] != 0] for i in range(n)}

    def reach(s):
        seen, todo = set(), [s]
        while todo:
            x = todo.pop()
            for y in adj[x]:
                if y not in seen:
                    seen.add(y)
                    todo.append(y)
        return seen
    return all(i in reach(i) for i in range(n))


def systems(thorough):
    out = []
    for a in ENTRIES[1:]:
        for b in BS:
            out.append(([[a]], [b]))
    for ent in itertools.product(ENTRIES, repeat=4):
        A = [list(ent[:2]), list(ent[2:])]
        if max(sum(abs(x) for x in r) for r in A) < 1 and cyclic(A):
            for b in (itertools.product(BS, repeat=2) if thorough else [(1, 10), (0, 1), (10, 0)]):
                out.append((A, list(b)))
    ring = []
    for e in itertools.product(ENTRIES[1:], repeat=3):
        for extra in ([None] + ([(0, 2, 0.25), (1, 0, -0.5), (2, 2, 0.25)] if thorough else [(1, 0, 0.25)])):
            A = [[0] * 3 for _ in range(3)]
            for i in range(3):
                A[i][(i + 1) % 3] = e[i]
            if extra:
                A[extra[0]][extra[1]] = extra[2]
            if max(sum(abs(x) for x in r) for r in A) < 1 and cyclic(A):
                ring.append(A)
    for A in ring:
        for b in ([(1, 0, 10), (0, 0, 1)] if not thorough else itertools.product(BS, repeat=3)):
            out.append((A, list(b)))
    return out


def spec_for(A, b, spelling):
    """x_i in A{i+1}, b_i in B{i+1}."""
    n = len(A)
    cells = {}
    for i in range(n):
        cells[f'B{i + 1}'] = b[i]
        if spelling == 'cells':
            terms = [f'{A[i][j]!r}*A{j + 1}' for j in range(n) if A[i][j] != 0]
            expr = '+'.join(terms + [f'B{i + 1}'])
        elif spelling == 'offset':
            # the cycle is closed at run time only: the other cells are reached through OFFSET / INDIRECT, which leave no
            # edge in the dependency graph
            terms = [(f'{A[i][j]!r}*N(OFFSET($C$1,{j},-2))' if (i + j) % 2 == 0 else f'{A[i][j]!r}*N(INDIRECT("A"&{j + 1}))')
                     for j in range(n) if A[i][j] != 0]
            expr = '+'.join(terms + [f'B{i + 1}'])
        else:   # through a range: only when the row is constant a over all columns
            expr = f'{A[i][0]!r}*SUM(A1:A{n})+B{i + 1}'
        cells[f'A{i + 1}'] = f'=VTICK({i + 1},{expr})'
    return {'sheets': {'S': cells}, 'active': 'S'}


def range_spellable(A):
    return len(A) > 1 and all(len(set(r)) == 1 and r[0] != 0 for r in A)


def check_run(A, b, log_before, res, iterations, tol, first, acc, base, stage):
    """judge one evaluate() of cell `first` given the plugin log slice"""
    n = len(A)
    log = plugins.LOG[log_before:]
    passes = sum(1 for fid, _ in log if fid == first + 1)
    q = max(sum(abs(x) for x in r) for r in A)
    ok = True
    if passes > iterations:
        acc.violation(dict(base, verdict='too-many-passes', stage=stage, passes=passes),
                      f'{stage}: {passes} passes with iterations={iterations} (A={A}, b={b}, tol={tol}, first=A{first + 1})')
        ok = False
    if passes < iterations and passes >= 1:
        # stopped early: every evaluated cell moved <= tol in the last pass
        for i in range(n):
            vals = [v for fid, v in log if fid == i + 1]
            if len(vals) >= 2:
                try:
                    d = abs(vals[-1] - vals[-2])
                except TypeError:
                    continue
                if d > tol * (1 + 1e-5):
                    acc.violation(dict(base, verdict='stopped-while-moving', stage=stage, passes=passes, delta=d),
                                  f'{stage}: stopped after {passes} < {iterations} passes while A{i + 1} still moved by {d} '
                                  f'> tolerance {tol} (A={A}, b={b})')
                    ok = False
                    break
        if ok and isinstance(res, (int, float)) and passes >= 1:
            xstar = solve(A, b)
            err = abs(Fraction(res) - xstar[first])
            bound = Fraction(q).limit_denominator(1000) / (1 - Fraction(q).limit_denominator(1000)) * Fraction(tol) \
                * (1 + Fraction(1, 100000)) + Fraction(1, 10 ** 12)
            if err > bound:
                acc.violation(dict(base, verdict='outside-error-bound', stage=stage, passes=passes, err=float(err)),
                              f'{stage}: result {res} is {float(err):.3g} from the fixed point {float(xstar[first]):.12g}, '
                              f'allowed q/(1-q)*tol = {float(bound):.3g} (A={A}, b={b}, tol={tol}, passes={passes})')
                ok = False
    if passes == 0 and iterations >= 1:
        acc.violation(dict(base, verdict='no-pass', stage=stage, passes=0),
                      f'{stage}: evaluate(A{first + 1}) = {res!r} without evaluating the formula at all (A={A}, b={b})')
        ok = False
    return passes, ok


def run_system(A, b, spelling, origin, iterations, tol, first, acc, tmp):
    n = len(A)
    spec = spec_for(A, b, spelling)
    base = dict(kind='cycle', part='a', A=A, b=b, spelling=spelling, origin=origin, iterations=iterations, tol=tol,
                first=first)
    plugins.reset()
    cyc = dict(iterations=iterations, tolerance=tol)
    try:
        if origin == 'inmem':
            m = W.compile_inmem(dict(spec, calc={'iterate': True, 'count': iterations, 'delta': tol}),
                                cycles=True, plugins='mc.plugins')
        else:
            import os
            path = os.path.join(tmp, 'cyc.xlsx')
            stored = {f'S!A{i + 1}': 0 for i in range(n)}
            m = W.compile_xlsx(dict(spec, calc={'iterate': True, 'count': iterations, 'delta': tol}), path, stored,
                               plugins='mc.plugins')
    except Exception as exc:
        acc.violation(dict(base, verdict='build-raised', exc=type(exc).__name__),
                      f'building the model raised {type(exc).__name__}: {str(exc)[:200]}')
        return 0
    multi = 0
    stages = [('first', None), ('override', None)]
    stages.append(('after-set', (f'S!B{first + 1}', 3)))
    stages.append(('after-set-2', (f'S!B{(first + 1) % n + 1}', -2)))
    bb = list(b)
    for stage, write in stages:
        if write:
            try:
                m.set_value(*write)
            except Exception as exc:
                acc.violation(dict(base, verdict='set-raised', stage=stage, exc=type(exc).__name__),
                              f'{stage}: set_value{write} raised {type(exc).__name__}: {str(exc)[:160]}')
                return multi
            bb[int(write[0].split('B')[1]) - 1] = write[1]
        before = len(plugins.LOG)
        it_now, tol_now = iterations, tol
        try:
            if stage == 'override':
                # explicit per-call settings (more passes allowed, looser tolerance); must not stick afterwards
                it_now, tol_now = iterations * 7 + 3, tol * 50
                res = m.evaluate(f'S!A{first + 1}', iterations=it_now, tolerance=tol_now)
            else:
                res = m.evaluate(f'S!A{first + 1}')
        except Exception as exc:
            acc.violation(dict(base, verdict='evaluate-raised', stage=stage, exc=type(exc).__name__),
                          f'{stage}: evaluate(A{first + 1}) raised {type(exc).__name__}: {str(exc)[-200:]} (A={A}, b={bb})')
            return multi
        acc.add('transitions')
        passes, ok = check_run(A, bb, before, res, it_now, tol_now, first, acc, base, stage)
        acc.outcome(passes)
        if passes > 1:
            multi = 1
        if not ok:
            return multi
        # the other cells, evaluated afterwards, obey the same rules
        for j in range(n):
            if j != first:
                before = len(plugins.LOG)
                try:
                    r2 = m.evaluate(f'S!A{j + 1}')
                except Exception as exc:
                    acc.violation(dict(base, verdict='evaluate-raised', stage=stage + '/other', exc=type(exc).__name__),
                                  f'{stage}: evaluate(A{j + 1}) raised {type(exc).__name__}: {str(exc)[-200:]}')
                    return multi
                acc.add('transitions')
                _, ok = check_run(A, bb, before, r2, iterations, tol, j, acc, base, stage + '/other')
                if not ok:
                    return multi
    return multi


def work_a(job):
    systems_, settings, origin = job
    acc = Acc()
    tmp = tempfile.mkdtemp(prefix='c06_')
    try:
        for A, b in systems_:
            spellings = ['cells'] + (['range'] if range_spellable(A) else []) + (['offset'] if len(A) == 2 else [])
            for sp in spellings:
                for it, tol in settings:
                    for first in range(len(A)):
                        acc.add('evaluations')
                        acc.add('states')
                        acc.add('distinct_nontrivial', run_system(A, b, sp, origin, it, tol, first, acc, tmp))
        if systems_:
            A, b = systems_[-1]
            acc.sample(dict(A=A, b=b, cells=spec_for(A, b, 'cells')['sheets'], settings=settings[:3], origin=origin))
    finally:
        shutil.rmtree(tmp, ignore_errors=True)
    return acc.result()


class PB(c01.P):
    """acyclic workbook compiled with cycles on; reference stays the plain from-scratch model"""
    CYC = {'iterations': 100, 'tolerance': 0.001}

    def _new(self):
        from pycel.excelcompiler import ExcelCompiler
        if self.origin.startswith('inmem'):
            m = W.compile_inmem(dict(self.spec, calc={'iterate': True, 'count': 100, 'delta': 0.001}), cycles=True)
        else:
            m = ExcelCompiler(filename=self.path, cycles=True)
        if self.origin.endswith('-warm'):
            for a in self.fam['cells']:
                try:
                    m.evaluate(a)
                except Exception:
                    pass
        return {'m': m, 'assign': {}}

    def prepare(self):
        if self.origin.startswith('xlsx'):
            import os
            stored = {a: v[1] for a, v in W.scratch_values(self.spec).items() if v[0] == 'ok'}
            self.path = os.path.join(self.tmp, 'wb.xlsx')
            W.write_xlsx(dict(self.spec, calc={'iterate': True, 'count': 100, 'delta': 0.001}), self.path, stored)

    def canon(self, st):
        k = super().canon(st)
        return k

    def case(self, hist, op, obs):
        c = super().case(hist, op, obs)
        c.update(kind='acyclic', part='b', verdict='differs-from-plain', spelling=None)
        return c


def work_b(job):
    fam, origin, values, depth, max_states, shard = job
    acc = Acc()
    tmp = tempfile.mkdtemp(prefix='c06b_')
    try:
        p = PB(fam, origin, values, tmp)
        res = explore.bfs(p, depth, acc, max_states=max_states, shard=shard)
        acc.add('states', res['states'])
        acc.add('transitions', res['transitions'])
        acc.add('evaluations', res['transitions'])
        acc.add('distinct_nontrivial', p.invalidating)
        acc.add('b_jobs')
        acc.add('b_jobs_capped', int(res['capped']))
    finally:
        shutil.rmtree(tmp, ignore_errors=True)
    return acc.result()


def run(ctx):
    sysl = systems(ctx.thorough)
    if ctx.thorough:
        settings = list(itertools.product(SETTINGS_IT, SETTINGS_TOL))
    else:
        settings = [(1, 1e-3), (2, 0.1), (3, 1e-9), (5, 1), (50, 0.1), (50, 1e-3), (1000, 1e-9), (1000, 0.1)]
    k = ctx.seed % len(sysl)
    sysl = sysl[k:] + sysl[:k]
    jobs = []
    nchunks = 48
    for origin in ('inmem', 'xlsx'):
        for c in range(nchunks):
            part = sysl[c::nchunks]
            if part:
                jobs.append((part, settings, origin))
    ctx.pmap(work_a, jobs, timeout=3000)
    ctx.extra['systems'] = len(sysl)
    ctx.extra['settings'] = [list(s) for s in settings]
    # ---- part (b)
    fams = family.curated()
    jobsb = []
    vals = [7, 0, None, False, 't']
    for f in fams:
        if ctx.thorough:
            for o in ('inmem', 'inmem-warm', 'xlsx', 'xlsx-warm', 'inmem+thr', 'inmem-warm+thr'):
                for s in range(4):
                    jobsb.append((f, o, vals, 3, 40000, (s, 4)))
        else:
            jobsb.append((f, 'inmem', vals[:3], 3, 8000, None))
            ns = 6 if len(f['inputs']) >= 4 else 3 if len(f['inputs']) >= 3 else 2
            for s in range(ns):
                jobsb.append((f, 'inmem-warm', vals, 3, 8000, (s, ns)))
            jobsb.append((f, 'xlsx', vals[:3], 2, 8000, None))
            jobsb.append((f, 'xlsx-warm', vals[:3], 2, 8000, None))
            if f['name'] in c01.THREADED:
                # the operations of the history placed on two threads (iterative bookkeeping is per thread, the model is not)
                f3 = dict(f, inputs=f['inputs'][:2])
                jobsb.append((f3, 'inmem+thr', [7, None], 3, 8000, None))
                jobsb.append((f3, 'inmem-warm+thr', [7, None], 3, 8000, None))
    ctx.pmap(work_b, jobsb, timeout=3000)
    ctx.counts['traces_validated_against_impl'] = ctx.counts.get('transitions', 0)
    ctx.extra['exhaustive'] = ctx.counts.get('b_jobs_capped', 0) == 0


def replay(case):
    if case.get('part') == 'b':
        return c01_replay_b(case)
    acc = Acc()
    tmp = tempfile.mkdtemp(prefix='c06r_')
    try:
        run_system(case['A'], case['b'], case['spelling'], case['origin'], case['iterations'], case['tol'],
                   case['first'], acc, tmp)
    finally:
        shutil.rmtree(tmp, ignore_errors=True)
    txt = f"system A={case['A']} b={case['b']} cells={spec_for(case['A'], case['b'], case['spelling'])['sheets']}\n"
    txt += '\n'.join(m for _, m in acc.violations) or 'no violation'
    return bool(acc.violations), txt


def c01_replay_b(case):
    fam = case['fam']
    tmp = tempfile.mkdtemp(prefix='c06r_')
    try:
        p = PB(fam, case['origin'], [], tmp)
        st = p.new()
        lines = [f"workbook {fam['name']} (cycles on) origin={case['origin']} cells={fam['spec']['sheets']}"]
        for o in [tuple(x) for x in case['hist']]:
            lines.append(f'  {o} -> {p.step(st, o)!r}')
        op = tuple(case['op'])
        obs = p.step(st, op)
        msg = p.check(st, (), op, obs)
        p.dispose(st)
        lines.append(f'  {op} -> {obs!r}')
        lines.append('  verdict: ' + (msg or 'agrees with plain from-scratch model'))
        return bool(msg), '\n'.join(lines)
    finally:
        shutil.rmtree(tmp, ignore_errors=True)
