"""C08 -- trim_graph preserves the outputs as a function of the inputs (differential vs untrimmed model)."""
import itertools
import os
import shutil
import tempfile

from mc import family, wb as W
from mc.runner import Acc, jsonable

ID = 'C08'
LEVEL = 'model_checking'
RULE = ('for every workbook x input set (cells / ranges, leaf or buried, size <= 2) x output set (size <= 2) x '
        '{trim before anything was evaluated, trim after evaluating the outputs} x {trimmed model, yml, json, pkl round '
        'trip}: every history of input assignments up to the stated depth is applied to the trimmed model and to an '
        'untrimmed model and every output is evaluated after every write and compared type-strictly. '
        'distinct_nontrivial = distinct (configuration, history) pairs in which at least one output changed value '
        'in the untrimmed model after a write (the trimmed model had to follow).')
ASSUMPTIONS = ['the untrimmed in-memory model driven by the same history is the oracle',
               'trim_graph raising ValueError for an input nothing depends on, and set_value refusing an input that the '
               'specification shows cannot reach any output, are legitimate refusals',
               'None (blank) is never written to a formula cell used as input (it means recalculate in the untrimmed model)']

VALUES = [7, 0, 't', None]
GROUP = ('stage', 'warm', 'persist', 'range_input', 'buried_input', 'exc')


def candidates(fam):
    spec = fam['spec']
    consts = W.constant_cells(spec)
    forms = W.formula_cells(spec)
    ins = list(fam['inputs'])
    for a in consts:
        if a not in ins:
            ins.append(a)
    buried = [a for a in forms][:2]
    plain = set(consts) | set(forms)
    ranges = [r for r in fam['ranges'] if all(c in consts for c in cells_of(r))][:2]
    outs = forms + [r for r in fam['ranges'][:1]]
    arrs = [a for a in fam['cells'] if a not in consts and a not in forms]
    outs += arrs[:2]
    return ins, buried, ranges, outs


def reaches(deps, src_cells, outs_cells):
    for s in src_cells:
        d = W.descendants(deps, s)
        if any(o in d for o in outs_cells):
            return True
    return False


def cells_of(addr):
    sh, ref = W.split_addr(addr)
    if ':' in ref:
        return [f'{sh}!{c}' for row in W.range_cells(ref) for c in row]
    return [addr]


def block_for(addr, v):
    sh, ref = W.split_addr(addr)
    if ':' in ref:
        grid = W.range_cells(ref)
        vals = [v, 1, 2, 3, 4, 5, 6, 8]
        k = 0
        out = []
        for row in grid:
            r = []
            for _ in row:
                r.append(vals[k % len(vals)])
                k += 1
            out.append(r)
        return out
    return v


def compile_model(fam):
    if fam.get('cycles'):
        return W.compile_inmem(dict(fam['spec'], calc={'iterate': True, 'count': 200, 'delta': 1e-9}), cycles=True)
    return W.compile_inmem(fam['spec'])


def run_config(fam, I, O, warm, persist, depth, tmp, acc, deps):
    """returns number of histories explored"""
    spec = fam['spec']
    base = dict(kind='trim', wb=fam['name'], fam={k: fam.get(k) for k in ('name', 'spec', 'ranges', 'unbounded', 'inputs', 'cells', 'cycles')},
                inputs=list(I), outputs=list(O), warm=warm, persist=persist,
                range_input=any(':' in i for i in I), buried_input=any(i in W.formula_cells(spec) for i in I))
    out_cells = [c for o in O for c in cells_of(o)]
    # writing None (blank) to a formula cell means "recalculate" in an untrimmed model: outside the statement
    forms_ = set(W.formula_cells(spec))
    writes = [(i, v) for i in I for v in VALUES
              if not (v is None and any(c in forms_ for c in cells_of(i)))]
    hists = [()]
    for d in range(1, depth + 1):
        hists += list(itertools.product(writes, repeat=d))
    n = 0
    trimmed_src = None
    for hist in hists:
        # ---------------- trimmed model
        try:
            m = compile_model(fam)
            if warm:
                for o in O:
                    m.evaluate(o)
            m.trim_graph(I, O)
        except ValueError as exc:
            acc.add('trim_refused')
            return n
        except Exception as exc:
            acc.violation(dict(base, stage='trim', exc=type(exc).__name__, hist=[]),
                          f"{fam['name']}: trim_graph({I}, {O}) warm={warm} raised {type(exc).__name__}: {str(exc)[:200]}")
            return n
        try:
            if persist != 'direct':
                path = os.path.join(tmp, f'trim.{persist}')
                for ext in ('yml', 'json', 'pkl'):
                    if os.path.exists(os.path.join(tmp, 'trim.' + ext)):
                        os.unlink(os.path.join(tmp, 'trim.' + ext))
                m.to_file(path)
                from pycel.excelcompiler import ExcelCompiler
                m = ExcelCompiler.from_file(path)
        except Exception as exc:
            acc.violation(dict(base, stage='persist', exc=type(exc).__name__, hist=[]),
                          f"{fam['name']}: trim_graph({I}, {O}) warm={warm} then {persist} round trip raised "
                          f"{type(exc).__name__}: {str(exc)[:200]}")
            return n
        # ---------------- untrimmed reference
        r = compile_model(fam)
        for o in O:
            try:
                r.evaluate(o)
            except Exception:
                pass
        for i in I:
            try:
                r.evaluate(i)
            except Exception:
                pass
        n += 1
        acc.add('evaluations')
        changed = False
        prev = None
        steps = [None] + list(hist)
        for k, w in enumerate(steps):
            if w is not None:
                addr, v = w
                blk = block_for(addr, v)
                r.set_value(addr, blk)
                try:
                    m.set_value(addr, blk)
                except AssertionError as exc:
                    named = str(exc).split('"')[1] if '"' in str(exc) else addr
                    if 'not found in the cell map' in str(exc) and not reaches(deps, cells_of(addr), out_cells):
                        acc.add('legit_set_refusals')
                    elif ('not found in the cell map' in str(exc) and ':' in addr and named in cells_of(addr)
                          and not reaches(deps, [named], out_cells)):
                        # a member of the input range that cannot reach any output was legitimately dropped:
                        # assign the members the model still has one by one
                        acc.add('legit_member_refusals')
                        flat = [x for row in blk for x in row]
                        for c, x in zip(cells_of(addr), flat):
                            try:
                                m.set_value(c, x)
                            except AssertionError as exc2:
                                if reaches(deps, [c], out_cells):
                                    acc.violation(dict(base, stage='set', exc='AssertionError', hist=jsonable(hist[:k])),
                                                  f"{fam['name']}: trim({I},{O}) warm={warm} {persist}: set_value({c}) refused "
                                                  f"although the cell can reach an output: {str(exc2)[:120]}")
                    else:
                        acc.violation(dict(base, stage='set', exc='AssertionError', hist=jsonable(hist[:k])),
                                      f"{fam['name']}: trim({I},{O}) warm={warm} {persist}: set_value({addr}) refused "
                                      f"although the input can reach an output: {str(exc)[:120]}")
                        break
                except Exception as exc:
                    acc.violation(dict(base, stage='set', exc=type(exc).__name__, hist=jsonable(hist[:k])),
                                  f"{fam['name']}: trim({I},{O}) warm={warm} {persist}: set_value({addr}, {blk!r}) raised "
                                  f"{type(exc).__name__}: {str(exc)[:160]}")
                    break
            if k < len(steps) - 1 and len(steps) > 2 and k > 0:
                pass
            vals = []
            bad = None
            for o in O:
                try:
                    ev = ('ok', r.evaluate(o))
                except Exception as exc:
                    ev = ('exc', type(exc).__name__)
                try:
                    ov = ('ok', m.evaluate(o))
                except Exception as exc:
                    ov = ('exc', type(exc).__name__, str(exc)[:160])
                acc.add('transitions')
                vals.append(ev)
                same = (ov[0] == 'ok' and (W.vclose(ov[1], ev[1], rel=0, abs_=1e-6) if fam.get('cycles') else W.veq(ov[1], ev[1])))
                if ev[0] == 'ok' and not same:
                    bad = (o, ov, ev)
                    break
            if bad:
                o, ov, ev = bad
                acc.violation(dict(base, stage='evaluate', hist=jsonable(hist[:k]), output=o, observed=jsonable(ov),
                                   expected=jsonable(ev)),
                              f"{fam['name']}: trim_graph({I}, {O}) warm={warm} {persist}, after writes {list(hist[:k])}: "
                              f"evaluate({o}) = {ov!r} but the untrimmed model gives {W.show(ev[1])}")
                break
            if prev is not None and repr(vals) != repr(prev):
                changed = True
            prev = vals
        if changed:
            acc.add('distinct_nontrivial')
    return n


def work(job):
    fam, configs, depth = job
    acc = Acc()
    tmp = tempfile.mkdtemp(prefix='c08_')
    deps = W.spec_deps(fam['spec'])
    try:
        for (I, O, warm, persist) in configs:
            acc.add('states')
            # the persistence format acts once, when the trimmed model is loaded: the deepest histories are
            # explored on the direct model, the file formats one level shallower
            run_config(fam, I, O, warm, persist, depth if persist == 'direct' or depth < 3 else depth - 1, tmp, acc, deps)
        if configs:
            acc.sample(dict(workbook=fam['name'], cells=fam['spec']['sheets'], config=jsonable(configs[0]),
                            depth=depth, values=[repr(v) for v in VALUES]))
    finally:
        shutil.rmtree(tmp, ignore_errors=True)
    return acc.result()


def configs_for(fam, thorough):
    ins, buried, ranges, outs = candidates(fam)
    deps = W.spec_deps(fam['spec'])
    singles_in = [(i,) for i in ins] + [(b,) for b in buried] + [(r,) for r in ranges]
    pairs_in = []
    pool = ins[:3] + buried[:1] + ranges[:1]
    for a, b in itertools.combinations(pool, 2):
        forms = W.formula_cells(fam['spec'])
        ok = True
        if set(cells_of(a)) & set(cells_of(b)):
            ok = False
        if ok:
            pairs_in.append((a, b))
    singles_out = [(o,) for o in outs]
    pairs_out = list(itertools.combinations(outs, 2))
    cfgs = []
    persists = ['direct', 'yml', 'json', 'pkl']
    for I in singles_in + (pairs_in if thorough else pairs_in[:3]):
        for O in singles_out + (pairs_out if thorough else pairs_out[:2]):
            for warm in (False, True):
                for p in persists:
                    if not thorough and p in ('json', 'pkl') and (not warm or len(I) > 1):
                        continue
                    cfgs.append((I, O, warm, p))
    return cfgs


def cycle_family():
    S = family.S
    out = []
    for name, cells, inputs in (
            ('cycle_feed', {'A1': 2, 'B1': '=0.5*B2+1', 'B2': '=0.5*B1+2', 'C1': '=A1+B1', 'D1': '=C1*2'}, ['S!A1']),
            ('cycle_on_input', {'A1': 2, 'B1': '=0.5*B2+A1', 'B2': '=0.25*B1+2', 'C1': '=B1+B2', 'E1': 7, 'D1': '=C1+E1'}, ['S!A1', 'S!E1'])):
        spec = S(cells)
        out.append(dict(name=name, spec=spec, ranges=[], unbounded=[], inputs=inputs, cells=W.all_cells(spec), tags=['cycles'],
                        cycles=True))
    return out


def run(ctx):
    fams = family.curated() + cycle_family()
    jobs = []
    for f in fams:
        cfgs = configs_for(f, ctx.thorough)
        n = 4 if not ctx.thorough else 12
        for k in range(n):
            part = cfgs[k::n]
            if part:
                jobs.append((f, part, 3 if ctx.thorough else 2))
    k = ctx.seed % len(jobs)
    ctx.pmap(work, jobs[k:] + jobs[:k], timeout=3000)
    ctx.counts['traces_validated_against_impl'] = ctx.counts.get('evaluations', 0)
    ctx.extra['values'] = [repr(v) for v in VALUES]


def replay(case):
    fam = case['fam']
    acc = Acc()
    tmp = tempfile.mkdtemp(prefix='c08r_')
    try:
        depth = max(len(case.get('hist', [])), 0)
        deps = W.spec_deps(fam['spec'])
        # re-run exactly this configuration up to the recorded depth; report the first violation found
        run_config(fam, tuple(case['inputs']), tuple(case['outputs']), case['warm'], case['persist'],
                   min(depth, 3), tmp, acc, deps)
    finally:
        shutil.rmtree(tmp, ignore_errors=True)
    hits = [m for c, m in acc.violations if c.get('stage') == case.get('stage')]
    txt = f"workbook {fam['name']} {fam['spec']['sheets']}\n" + ('\n'.join(hits[:3]) or 'no violation for this configuration')
    return bool(hits), txt
