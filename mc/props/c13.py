"""C13 -- array (CSE) formulas: pointwise lifting and exact target shape."""
import itertools

from mc import feval, wb as W
from mc.runner import Acc, jsonable

ID = 'C13'
LEVEL = 'model_checking'
RULE = ('all broadcast-compatible operand shape pairs (scalar, 1xn, mx1, mxn, m,n <= 4) x all target shapes up to 4x4 x '
        'lifted operators {+,-,*,/,&,=,<} and array-aware functions {ABS, ROUND, IF, LEFT, IFERROR, MOD} x element fillings '
        '(position-coded numbers; one special element -- text, blank, #N/A, #DIV/0! -- at a rotating position): the array '
        'formula evaluated with a CSE target through the real compile pipeline must equal, at every position, the scalar '
        'application (the same formula on scalars) to the broadcast elements, fitted to the target (trim / repeat / #N/A); '
        'every shape pair x target again as an ArrayFormula in a real workbook, range and every member cell, before and '
        'after a set_value on an operand. distinct_nontrivial = cases where result shape != target shape or operands '
        'have different shapes.')
ASSUMPTIONS = ['scalar application is pycel\'s own scalar evaluation of the same formula (C10/C19/C20 judge scalar semantics)',
               'broadcasting as in the statement: equal shapes, scalar, single row, single column']
GROUP = ('fn', 'verdict')

SHAPES = [(r, c) for r in range(1, 5) for c in range(1, 5)]
OPS = ['+', '-', '*', '/', '&', '=', '<']
FUNCS = [('ABS', '=ABS({a})', '=ABS({x})', 1), ('ROUND', '=ROUND({a}/7,{b})', '=ROUND({x}/7,{y})', 2),
         ('IF', '=IF({a}>12,{a},{b})', '=IF({x}>12,{x},{y})', 2), ('LEFT', '=LEFT({a}&"abc",{b})', '=LEFT({x}&"abc",{y})', 2),
         ('IFERROR', '=IFERROR({a}/{b},-1)', '=IFERROR({x}/{y},-1)', 2), ('MOD', '=MOD({a},3)', '=MOD({x},3)', 1)]
SPECIALS = ['x', None, '#N/A', '#DIV/0!']


def compatible(s1, s2):
    return all(a == b or a == 1 or b == 1 for a, b in zip(s1, s2))


def rng(col0, row0, shape):
    r, c = shape
    a = f'{W.get_column_letter(col0)}{row0}'
    b = f'{W.get_column_letter(col0 + c - 1)}{row0 + r - 1}'
    return a if a == b else f'{a}:{b}'


def fill(shape, base, special=None, pos=0):
    r, c = shape
    vals = [[base + 10 * i + j + 1 for j in range(c)] for i in range(r)]
    if special is not None or pos < 0:
        k = pos % (r * c)
        vals[k // c][k % c] = special
    return vals


def env_of(vals, col0, row0):
    env = {}
    for i, row in enumerate(vals):
        for j, v in enumerate(row):
            if v is not None:
                env[f'{W.get_column_letter(col0 + j)}{row0 + i}'] = v
    return env


def fit(res, target):
    """the statement's fitting rule on a list-of-lists (or scalar) result"""
    tr, tc = target
    if not isinstance(res, list):
        return [[res] * tc for _ in range(tr)]
    rr, rc = len(res), len(res[0])
    out = []
    for i in range(tr):
        row = []
        for j in range(tc):
            si = 0 if rr == 1 else i
            sj = 0 if rc == 1 else j
            if si < rr and sj < rc:
                row.append(res[si][sj])
            else:
                row.append('#N/A')
        out.append(row)
    return out


def expected_array(ev, scalar_formula, A, B, s1, s2):
    r, c = max(s1[0], s2[0]), max(s1[1], s2[1])
    out = []
    for i in range(r):
        row = []
        for j in range(c):
            x = A[0 if s1[0] == 1 else i][0 if s1[1] == 1 else j]
            y = B[0 if s2[0] == 1 else i][0 if s2[1] == 1 else j]
            o = ev.run(scalar_formula, {'X1': x, 'Y1': y})
            row.append(o[1] if o[0] == 'ok' else ('exc', o[1]))
        out.append(row)
    return out


def to_lists(v):
    if isinstance(v, tuple):
        return [list(r) if isinstance(r, tuple) else [r] for r in v]
    return v


def work_ctx(job):
    k0, m = job[:2]
    thorough = len(job) > 2 and job[2]
    from pycel.excelutil import AddressRange
    acc = Acc()
    ev = feval.Evaluator()
    evs = feval.Evaluator()
    i = 0
    forms = [(op, '={a}' + op + '{b}', '={x}' + op + '{y}', 2) for op in OPS] + FUNCS
    for s1, s2 in itertools.product(SHAPES, repeat=2):
        if not compatible(s1, s2):
            continue
        for name, af, sf, arity in forms:
            if arity == 1 and s2 != (1, 1):
                continue
            if name not in OPS and not (s1 == s2 or s1 == (1, 1) or s2 == (1, 1)):
                continue        # array-aware functions: equally shaped arrays and scalars (as the statement says)
            i += 1
            if i % m != k0:
                continue
            fillings = [(None, -1)] + [(sp, (i + n) * 3) for n, sp in enumerate(SPECIALS)]
            if thorough:
                # every special element at every position of the first operand
                fillings = [(None, -1)] + [(sp, pos_) for sp in SPECIALS + [True] for pos_ in range(s1[0] * s1[1])]
            for sp, pos in fillings:
                A = fill(s1, 0, sp, pos) if pos >= 0 else fill(s1, 0)
                B = fill(s2, 2 if name in ('ROUND', 'LEFT') else 100) if name not in ('ROUND', 'LEFT') else \
                    [[(a + b) % 3 for b in range(s2[1])] for a in range(s2[0])]
                if name == 'IFERROR' and pos >= 0:
                    B = fill(s2, 0, 0, pos + 1)
                env = env_of(A, 1, 1)
                env.update(env_of(B, 6, 1))
                a_ref, b_ref = rng(1, 1, s1), rng(6, 1, s2)
                formula = af.format(a=a_ref, b=b_ref)
                scalar = sf.format(x='X1', y='Y1')
                exp_raw = expected_array(evs, scalar, A, B, s1, s2)
                for target in SHAPES:
                    taddr = AddressRange('S!' + rng(11, 1, target)) if target != (1, 1) else AddressRange('S!K1:K1')
                    if target == (1, 1):
                        continue
                    o = ev.run(formula, env, cse=taddr)
                    acc.add('evaluations')
                    acc.add('states')
                    rs = (max(s1[0], s2[0]), max(s1[1], s2[1]))
                    if rs != target or s1 != s2:
                        acc.add('distinct_nontrivial')
                    case = dict(kind='ctx', fn=name, formula=formula, s1=list(s1), s2=list(s2), target=list(target), special=jsonable(sp),
                                pos=pos)
                    if o[0] != 'ok':
                        acc.violation(dict(case, verdict='raised', exc=o[1]),
                                      f'{{{formula}}} operands {s1}x{s2} into {target} raised {o[1]}: {o[2][-100:]}')
                        continue
                    got = to_lists(o[1])
                    exp = fit(exp_raw if rs != (1, 1) else exp_raw[0][0], target)
                    if not isinstance(got, list) or len(got) != target[0] or any(len(r) != target[1] for r in got):
                        acc.violation(dict(case, verdict='wrong-shape', observed=jsonable(got)),
                                      f'{{{formula}}} operands {s1}x{s2} into target {target}: result shape is not the target shape: {got!r}')
                        continue
                    bad = [(a, b) for a in range(target[0]) for b in range(target[1])
                           if not (W.vclose(got[a][b], exp[a][b], rel=1e-12, abs_=1e-12)
                                   if not isinstance(exp[a][b], tuple) else False)]
                    if bad:
                        a, b = bad[0]
                        acc.violation(dict(case, verdict='wrong-element', position=[a, b], observed=jsonable(got), expected=jsonable(exp)),
                                      f'{{{formula}}} operands {s1}x{s2} (special {sp!r}) into {target}: element {bad[0]} = {got[a][b]!r}, '
                                      f'scalar application gives {exp[a][b]!r}')
    if k0 == 0:
        acc.sample(dict(formula='{=A1:B1+F1:F3}', operand_shapes=[[1, 2], [3, 1]], target=[2, 3],
                        rule='row + column broadcast to 3x2, trimmed to 2 rows, third column #N/A'))
    acc.counts['transitions'] = acc.counts.get('evaluations', 0)
    return acc.result()


def work_typemix(job):
    """arrays that mix logicals, equal numbers and numeric text, through type-sensitive functions and operators with
    scalar operands whose type matters (TRUE, blank, '', numeric text): element == scalar application"""
    k0, m = job
    from pycel.excelutil import AddressRange
    acc = Acc()
    ev, evs = feval.Evaluator(), feval.Evaluator()
    pool = [1, True, 1.0, 0, False, '1', '', None, 'a']
    funcs = ['=ISNUMBER({a})', '=ISLOGICAL({a})', '=ISTEXT({a})', '=LEN({a})', '=LEFT({a},2)', '={a}&""', '=EXACT({a},"1")',
             '=IF({a},"y","n")', '=ISBLANK({a})', '={a}=1', '={a}=TRUE']
    scalars = [True, False, None, '', '1', '007', 1, 'a']
    ops = ['&', '=', '<>', '<', '+']
    i = 0
    for vec in itertools.permutations(pool, 4):
        i += 1
        if i % m != k0:
            continue
        for shape in ((2, 2), (1, 4), (4, 1)):
            A = [list(vec[r * shape[1]:(r + 1) * shape[1]]) for r in range(shape[0])]
            env = env_of(A, 1, 1)
            a_ref = rng(1, 1, shape)
            taddr = AddressRange('S!' + rng(11, 1, shape))
            for f in funcs:
                o = ev.run(f.format(a=a_ref), env, cse=taddr)
                acc.add('evaluations')
                acc.add('states')
                acc.add('distinct_nontrivial')
                exp = [[(lambda r: r[1] if r[0] == 'ok' else ('exc', r[1]))(evs.run(f.format(a='X1'), {'X1': x})) for x in row] for row in A]
                got = to_lists(o[1]) if o[0] == 'ok' else o
                if o[0] != 'ok' or not isinstance(got, list) or any(
                        not W.veq(got[a][b], exp[a][b]) for a in range(shape[0]) for b in range(shape[1])):
                    acc.violation(dict(kind='typemix', fn=f, formula=f.format(a=a_ref), values=jsonable(A), verdict='wrong-element',
                                       observed=jsonable(got), expected=jsonable(exp)),
                                  f'{{{f.format(a=a_ref)}}} over {A} = {got!r}, scalar application per element gives {exp!r}')
            if i % 7 == 0:
                for op in ops:
                    for sc in scalars:
                        for form, sf in ((f'={a_ref}{op}F1', f'=X1{op}Y1'), (f'=F1{op}{a_ref}', f'=Y1{op}X1')):
                            e2 = dict(env)
                            if sc is not None:
                                e2['F1'] = sc
                            o = ev.run(form, e2, cse=taddr)
                            acc.add('evaluations')
                            exp = [[(lambda r: r[1] if r[0] == 'ok' else ('exc', r[1]))(evs.run(sf, {'X1': x, 'Y1': sc})) for x in row] for row in A]
                            got = to_lists(o[1]) if o[0] == 'ok' else o
                            if o[0] != 'ok' or not isinstance(got, list) or any(
                                    not W.veq(got[a][b], exp[a][b]) for a in range(shape[0]) for b in range(shape[1])):
                                acc.violation(dict(kind='typemix', fn=op, formula=form, values=jsonable(A), scalar=jsonable(sc),
                                                   verdict='wrong-element', observed=jsonable(got), expected=jsonable(exp)),
                                              f'{{{form}}} with array {A} and scalar F1={sc!r} = {got!r}, scalar application gives {exp!r}')
    # larger arrays (9 .. 16 elements) holding every type twin at once, each twin first in turn
    for rot in range(len(pool)):
        if rot % m != k0 % len(pool) and m > 1:
            continue
        for rev in (False, True):
            elems = pool[rot:] + pool[:rot]
            if rev:
                elems = elems[::-1]
            for shape in ((3, 3), (4, 4), (2, 5), (5, 2), (1, 9)):
                n = shape[0] * shape[1]
                flat = (elems * 2)[:n]
                A = [flat[r * shape[1]:(r + 1) * shape[1]] for r in range(shape[0])]
                env = env_of(A, 1, 1)
                a_ref = rng(1, 1, shape)
                taddr = AddressRange('S!' + rng(11, 1, shape))
                for f in funcs:
                    o = ev.run(f.format(a=a_ref), env, cse=taddr)
                    acc.add('evaluations')
                    acc.add('states')
                    acc.add('distinct_nontrivial')
                    exp = [[(lambda r: r[1] if r[0] == 'ok' else ('exc', r[1]))(evs.run(f.format(a='X1'), {'X1': x})) for x in row] for row in A]
                    got = to_lists(o[1]) if o[0] == 'ok' else o
                    if o[0] != 'ok' or not isinstance(got, list) or any(
                            not W.veq(got[a][b], exp[a][b]) for a in range(shape[0]) for b in range(shape[1])):
                        acc.violation(dict(kind='typemix', fn=f, formula=f.format(a=a_ref), values=jsonable(A), verdict='wrong-element',
                                           observed=jsonable(got), expected=jsonable(exp)),
                                      f'{{{f.format(a=a_ref)}}} over {A} = {got!r}, scalar application per element gives {exp!r}')
    acc.counts['transitions'] = acc.counts.get('evaluations', 0)
    return acc.result()


def work_workbook(job):
    k0, m = job
    acc = Acc()
    evs = feval.Evaluator()
    i = 0
    for s1, s2 in itertools.product(SHAPES, repeat=2):
        if not compatible(s1, s2):
            continue
        for target in SHAPES:
            if target == (1, 1):
                continue
            i += 1
            if i % m != k0:
                continue
            op = OPS[i % len(OPS)]
            A, B = fill(s1, 0), fill(s2, 100)
            cells = {}
            deep = (i % 3 == 0)
            if deep:
                # operand A cells are formulas two levels above the inputs (inputs at column AA.., row 21..)
                for a_ in range(s1[0]):
                    for b_ in range(s1[1]):
                        c0 = W.get_column_letter(1 + b_)
                        c1 = W.get_column_letter(27 + b_)
                        cells[f'{c0}{1 + a_}'] = f'={c1}{11 + a_}+0'
                        cells[f'{c1}{11 + a_}'] = f'={c1}{21 + a_}*1'
                        cells[f'{c1}{21 + a_}'] = A[a_][b_]
            else:
                cells.update(env_of(A, 1, 1))
            cells.update(env_of(B, 6, 1))
            formula = f'={rng(1, 1, s1)}{op}{rng(6, 1, s2)}'
            trng = rng(11, 1, target)
            cells[trng] = {'array': formula}
            cells['P9'] = f'=SUM({trng})' if op not in ('&', '=', '<') else f'=COUNTA({trng})'
            spec = {'sheets': {'S': cells}, 'active': 'S'}
            case = dict(kind='workbook', fn=op, formula=formula, s1=list(s1), s2=list(s2), target=list(target))
            try:
                m_ = W.compile_inmem(spec)
                for stage in ('first', 'after-set'):
                    if stage == 'after-set':
                        A = [list(r) for r in A]
                        A[0][0] = 55
                        m_.set_value('S!AA21' if deep else 'S!A1', 55)
                    exp = fit(expected_array(evs, f'=X1{op}Y1', A, B, s1, s2), target) if (max(s1[0], s2[0]), max(s1[1], s2[1])) != (1, 1) \
                        else fit(expected_array(evs, f'=X1{op}Y1', A, B, s1, s2)[0][0], target)
                    order = [f'S!{trng}'] + [f'S!{W.get_column_letter(11 + b)}{1 + a}' for a in range(target[0]) for b in range(target[1])]
                    if (i + (stage == 'first')) % 2:
                        order = order[1:] + order[:1]          # members first, then the range
                    for addr in order:
                        v = m_.evaluate(addr)
                        acc.add('evaluations')
                        if ':' in addr:
                            got = to_lists(v)
                            if target[0] == 1:
                                got = [list(v)] if isinstance(v, tuple) else got
                            elif target[1] == 1:
                                got = [[x] for x in v] if isinstance(v, tuple) else got
                            ok = isinstance(got, list) and len(got) == target[0] and all(len(r) == target[1] for r in got) and \
                                all(W.vclose(got[a][b], exp[a][b], rel=1e-12, abs_=1e-12) for a in range(target[0]) for b in range(target[1]))
                            if not ok:
                                acc.violation(dict(case, verdict='wrong-range', stage=stage, observed=jsonable(got), expected=jsonable(exp)),
                                              f'workbook {{{formula}}} in {trng} ({stage}): evaluate(range) = {got!r}, expected {exp!r}')
                                break
                        else:
                            col = W.column_index_from_string(''.join(ch for ch in addr.split('!')[1] if ch.isalpha())) - 11
                            row = int(''.join(ch for ch in addr.split('!')[1] if ch.isdigit())) - 1
                            if not W.vclose(v, exp[row][col], rel=1e-12, abs_=1e-12):
                                acc.violation(dict(case, verdict='wrong-member', stage=stage, cell=addr, observed=jsonable(v),
                                                   expected=jsonable(exp[row][col])),
                                              f'workbook {{{formula}}} in {trng} ({stage}): member {addr} = {v!r}, its element is {exp[row][col]!r}')
                                break
                acc.add('states')
                acc.add('distinct_nontrivial', int((max(s1[0], s2[0]), max(s1[1], s2[1])) != target))
            except Exception as exc:
                acc.violation(dict(case, verdict='raised', exc=type(exc).__name__),
                              f'workbook {{{formula}}} in {trng}: {type(exc).__name__}: {str(exc)[-160:]}')
    acc.counts['transitions'] = acc.counts.get('evaluations', 0)
    return acc.result()


LIFTED_OVER_REF = [('ABS', 'ABS({x})'), ('ROUND', 'ROUND({x},0)'), ('LEFT', 'LEFT({x},2)'), ('MOD', 'MOD({x},7)'),
                   ('IF', 'IF({x}>0,1,0)'), ('IFERROR', 'IFERROR({x},0)'), ('*', '{x}*2'), ('neg', '-{x}'), ('&', '{x}&"x"'),
                   ('=', '{x}=10.5'), ('+', '{x}+{x}'), ('id', '{x}')]
REF_SOURCES = [('OFFSET', 'OFFSET(A1,0,0,{h},{w})'), ('INDIRECT', 'INDIRECT("A1:{br}")'), ('OFFSET-shifted', 'OFFSET(B2,-1,-1,{h},{w})')]


def work_computed_ref(job):
    """the operand array arrives as a computed reference (OFFSET / INDIRECT) instead of a written range: the array
    formula must give, over the range and in every member cell, what the same formula over the written range gives
    (differential: the written-range form is judged by the other sub-checks)"""
    acc = Acc()
    for (h, w), target in (((2, 3), (2, 3)), ((2, 3), (3, 4)), ((3, 1), (3, 2)), ((1, 3), (1, 3))):
        cells = {}
        for r in range(h + 1):
            for c in range(w + 1):
                cells[f'{W.get_column_letter(c + 1)}{r + 1}'] = -(r * 10 + c + 10) if (r + c) % 2 else r * 10 + c + 10.5
        br = f'{W.get_column_letter(w)}{h}'
        trng = rng(11, 1, target)
        members = [f'S!{W.get_column_letter(11 + b)}{1 + a}' for a in range(target[0]) for b in range(target[1])]
        for lname, ltxt in LIFTED_OVER_REF:
            ref_formula = '=' + ltxt.format(x=f'A1:{br}')
            try:
                rm = W.compile_inmem({'sheets': {'S': dict(cells, **{trng: {'array': ref_formula}})}, 'active': 'S'})
                want = {a: rm.evaluate(a) for a in [f'S!{trng}'] + members}
            except Exception:
                continue            # the written-range form itself is not evaluable: nothing to compare with
            for sname, stxt in REF_SOURCES:
                formula = '=' + ltxt.format(x=stxt.format(h=h, w=w, br=br))
                case = dict(kind='computed-ref', fn=lname, lifted=lname, source=sname, formula=formula, shape=[h, w], target=list(target))
                acc.add('states')
                acc.add('distinct_nontrivial')
                try:
                    m_ = W.compile_inmem({'sheets': {'S': dict(cells, **{trng: {'array': formula}})}, 'active': 'S'})
                    got = {}
                    for a in (members + [f'S!{trng}']) if len(lname) % 2 else ([f'S!{trng}'] + members):
                        got[a] = m_.evaluate(a)
                        acc.add('evaluations')
                except Exception as exc:
                    acc.violation(dict(case, verdict='raised', exc=type(exc).__name__),
                                  f'{{{formula}}} in {trng}: {type(exc).__name__}: {str(exc)[-160:]}')
                    continue
                bad = [a for a in want if not W.veq(jsonable(got[a]), jsonable(want[a]))]
                if bad:
                    flat = [x for a in bad for x in (flatten_any(got[a]))]
                    addr_not_values = all(x == '#VALUE!' or 'A1:' in str(x) or 'AddressRange' in str(x) or 'AddressCell' in str(x) for x in flat)
                    acc.violation(dict(case, verdict='computed-ref-differs', cells=bad[:3], observed=jsonable(got[bad[0]]),
                                       expected=jsonable(want[bad[0]]), address_instead_of_values=addr_not_values),
                                  f'{{{formula}}} in {trng}: {bad[0]} = {str(got[bad[0]])[:120]!r} but {{{ref_formula}}} gives '
                                  f'{str(want[bad[0]])[:120]!r}')
    acc.counts['transitions'] = acc.counts.get('evaluations', 0)
    return acc.result()


def flatten_any(v):
    if isinstance(v, (tuple, list)):
        out = []
        for x in v:
            out += flatten_any(x)
        return out
    return [v]


SHEET_NAMES = ["It's", 'a-b', 'P&L', 'x,y', 'a(b)', 'a;b', '50%', 'a=b', 'a+b', "O'Brien", 'Sheet 1', '2024', '\u00e9', 'a b!c', 'A1', 'a.b', 'x_y', "a'b c", '#1', 'a<b>']


def work_sheetnames(job):
    """an array formula on a sheet whose name needs quoting inside a formula: the range, every member cell and a formula
    on another sheet that reads a member all show the elements"""
    acc = Acc()
    for name in SHEET_NAMES:
        q = "'" + name.replace("'", "''") + "'"
        spec = {'sheets': {name: {'A1': 1, 'A2': 2, 'C1:D2': {'array': '=A1:A2*2'}, 'F1': '=D2+1'},
                           'Other': {'A1': f'={q}!C1+{q}!D2', 'A2': f'=SUM({q}!C1:D2)'}}, 'active': name}
        want = {f'{name}!C1:D2': ((2, 2), (4, 4)), f'{name}!C1': 2, f'{name}!D1': 2, f'{name}!C2': 4, f'{name}!D2': 4, f'{name}!F1': 5,
                'Other!A1': 6, 'Other!A2': 12}
        for order in (list(want), list(want)[::-1]):
            try:
                m = W.compile_inmem(spec)
            except Exception as exc:
                acc.violation(dict(kind='sheetname', sheet=name, verdict='build-raised', exc=type(exc).__name__),
                              f'workbook with an array formula on sheet {name!r} does not compile: {type(exc).__name__}: {str(exc)[:120]}')
                break
            for a in order:
                acc.add('evaluations')
                acc.add('states')
                acc.add('distinct_nontrivial')
                try:
                    got = m.evaluate(a)
                except Exception as exc:
                    acc.violation(dict(kind='sheetname', sheet=name, addr=a, verdict='raised', exc=type(exc).__name__),
                                  f'sheet {name!r}: evaluate({a!r}) raised {type(exc).__name__}: {str(exc).strip().splitlines()[-1][:120]} '
                                  f'({{=A1:A2*2}} entered over C1:D2)')
                    continue
                if not W.veq(got, want[a]):
                    acc.violation(dict(kind='sheetname', sheet=name, addr=a, verdict='wrong-element', observed=jsonable(got), expected=jsonable(want[a])),
                                  f'sheet {name!r}: evaluate({a!r}) = {got!r}, expected {want[a]!r}')
    # the SAME array formula text entered over targets of different shapes on one sheet: each member shows the element of
    # its own target
    spec = {'sheets': {'S': {'A1': 1, 'A2': 2, 'A3': 3, 'D1:D3': {'array': '=A1:A3*2'}, 'F1:G4': {'array': '=A1:A3*2'}, 'I1:K1': {'array': '=A1:A3*2'},
                             'D6:E6': {'array': '=A1:A3*2'}}}, 'active': 'S'}
    NA = '#N/A'
    want = {'S!D1': 2, 'S!D2': 4, 'S!D3': 6, 'S!F1': 2, 'S!G1': 2, 'S!F2': 4, 'S!G2': 4, 'S!F3': 6, 'S!G3': 6, 'S!F4': NA, 'S!G4': NA,
            'S!I1': 2, 'S!J1': 2, 'S!K1': 2, 'S!D6': 2, 'S!E6': 2, 'S!F1:G4': ((2, 2), (4, 4), (6, 6), (NA, NA)), 'S!D1:D3': (2, 4, 6)}
    for order in (list(want), list(want)[::-1]):
        m = W.compile_inmem(spec)
        for a in order:
            acc.add('evaluations')
            acc.add('states')
            try:
                got = m.evaluate(a)
            except Exception as exc:
                acc.violation(dict(kind='sheetname', sheet='same-text', addr=a, verdict='raised', exc=type(exc).__name__),
                              f'{{=A1:A3*2}} over D1:D3, F1:G4, I1:K1, D6:E6: evaluate({a!r}) raised {type(exc).__name__}')
                continue
            if not W.veq(got, want[a]):
                acc.violation(dict(kind='sheetname', sheet='same-text', addr=a, verdict='wrong-element', observed=jsonable(got), expected=jsonable(want[a])),
                              f'the same array formula text {{=A1:A3*2}} over D1:D3, F1:G4, I1:K1 and D6:E6: evaluate({a!r}) = {got!r}, expected {want[a]!r}')
    acc.counts['transitions'] = acc.counts.get('evaluations', 0)
    return acc.result()


def run(ctx):
    m = 64
    ctx.pmap(work_ctx, [((k + ctx.seed) % m, m, ctx.thorough) for k in range(m)], timeout=12000)
    ctx.pmap(work_workbook, [(k, 32) for k in range(32)], timeout=6000)
    ctx.pmap(work_typemix, [(k, 32) for k in range(32)], timeout=6000)
    ctx.pmap(work_computed_ref, [(0,)], timeout=1200)
    ctx.pmap(work_sheetnames, [(0,), (1,)], timeout=600)
    ctx.counts['traces_validated_against_impl'] = ctx.counts.get('evaluations', 0)
    ctx.extra['shapes'] = len(SHAPES)
    ctx.extra['operators'] = OPS
    ctx.extra['functions'] = [f[0] for f in FUNCS]


def replay(case):
    if case['kind'] == 'sheetname':
        r = work_sheetnames((0,))
        hits = [m for c, m in r['violations'] if c.get('sheet') == case.get('sheet') and c.get('addr') == case.get('addr')]
        return bool(hits), '\n'.join(hits[:2]) or 'no violation'
    if case['kind'] == 'typemix':
        r = work_typemix((0, 1))
        hits = [m for c, m in r['violations'] if c.get('formula') == case.get('formula') and c.get('values') == case.get('values')
                and c.get('scalar') == case.get('scalar')]
        return bool(hits), '\n'.join(hits[:2]) or 'no violation'
    if case['kind'] == 'computed-ref':
        r = work_computed_ref((0,))
        hits = [m for c, m in r['violations'] if all(c.get(k) == case.get(k) for k in ('formula', 'shape', 'target', 'verdict'))]
        return bool(hits), '\n'.join(hits[:2]) or 'no violation'
    if case['kind'] == 'ctx':
        r = work_ctx((0, 1))
    else:
        r = work_workbook((0, 1))
    hits = [m for c, m in r['violations'] if all(c.get(k) == case.get(k) for k in ('fn', 'formula', 's1', 's2', 'target', 'verdict'))]
    return bool(hits), '\n'.join(hits[:2]) or 'no violation'
