"""C01 -- lazy cache coherence: BFS over set_value/evaluate histories vs from-scratch compile."""
import os
import shutil
import tempfile

from mc import explore, family, wb as W
from mc.runner import Acc, jsonable

ID = 'C01'
LEVEL = 'model_checking'
RULE = ('BFS over all histories of evaluate(addr)/set_value(input, v) up to the stated depth on the real '
        'ExcelCompiler, per workbook x origin {inmem, xlsx+stored results, yml, json, pkl}, deduplicated by a '
        'canonical state key; every evaluate is compared type-strictly with a from-scratch compile holding the '
        'current inputs. distinct_nontrivial = (canonical state, set_value) transitions that invalidated at '
        'least one cached formula/range value (each (state, op) pair is executed once per shard; large jobs are '
        'sharded by first operation).')
ASSUMPTIONS = ['from-scratch in-memory compile of the same specification is the oracle (differential, no Excel semantics)',
               'only constant cells are written (one at a time, as an address list with a value list, and as a range with a matrix); set_as_range=True is outside the alphabet',
               'canonical key lists every field later operations read; on introspection failure histories are not merged']

VALUES_QUICK = [7, 0, False, None, 't', True, 1, 2.5, 2.5000000000000004, 1e-9]     # 2.5 and its neighbour double; 0 and a tiny number
VALUES_THOROUGH = [7, 0, 1, 2.5, 't', '', True, False, None, 1.000001, 1e-9, 7.00001, 2.500001, 0.0]
ORIGINS = ['inmem', 'inmem-part', 'inmem-warm', 'inmem-warm2', 'xlsx', 'xlsx-part', 'xlsx-warm', 'xlsx-warm2', 'yml', 'json', 'pkl']
VALUES_SMALL = [7, None, False, 0]
DEEP = ('chain', 'fan_range', 'nested', 'range_of_formulas', 'unbounded', 'cse_out', 'overlap', 'triangle')
THREADED = ('chain', 'diamond', 'fan_range', 'unbounded', 'cse_out', 'names', 'range_of_formulas')


class P(explore.Problem):
    def __init__(self, fam, origin, values, tmpdir):
        self.fam = fam
        self.spec = fam['spec']
        # '+thr': the model is built (and warmed) on thread a; every operation of the history is placed on thread a or on
        # thread b (both fresh per replayed state), so the alphabet doubles: ('thr', 0|1, operation)
        self.threads = origin.endswith('+thr')
        origin = origin[:-4] if self.threads else origin
        self.origin = origin
        self.tmp = tmpdir
        self.targets = fam['cells'] + fam['ranges'] + fam['unbounded']
        self.ops = [('ev', a) for a in self.targets] + \
                   [('set', i, v) for i in fam['inputs'] for v in values]
        if (origin.startswith('inmem') or origin == 'xlsx-part') and values:
            self.ops.append(('recalc',))          # public API: recalculate every known cell
        if values:
            # the multi-address forms of set_value: a list of addresses with a list of values, a range with a matrix
            ins = fam['inputs']
            if len(ins) >= 2:
                self.ops.append(('setmany', (ins[0], ins[1]), (7, None)))
                self.ops.append(('setmany', (ins[1], ins[0]), (False, 0)))
            for rng in fam['ranges']:
                mem = self.members(rng)
                if mem and all(c in ins for row in mem for c in row):
                    k = iter(range(100))
                    self.ops.append(('setrange', rng, tuple(tuple(50 + next(k) for _ in row) for row in mem)))
                    pat = [None, 't', 0, True]
                    self.ops.append(('setrange', rng, tuple(tuple(pat[next(k) % 4] for _ in row) for row in mem)))
        if self.threads:
            self.ops = [('thr', t, o) for o in self.ops for t in (0, 1)]
        self.refmemo = {}
        self.path = None
        self.invalidating = 0
        self.cache_hits = 0
        self.prepare()

    @staticmethod
    def members(rng):
        sh, ref = W.split_addr(rng)
        if ':' not in ref or not all(W.CELL_RE.match(x) for x in ref.split(':')):
            return None
        return [[f'{sh}!{c}' for c in row] for row in W.range_cells(ref)]

    def writes(self, op):
        """the (address, value) pairs an operation writes"""
        if op[0] == 'thr':
            return self.writes(op[2])
        if op[0] == 'set':
            return [(op[1], op[2])]
        if op[0] == 'setmany':
            return list(zip(op[1], op[2]))
        if op[0] == 'setrange':
            return [(a, v) for ra, rv in zip(self.members(op[1]), op[2]) for a, v in zip(ra, rv)]
        return []

    def prepare(self):
        from pycel.excelcompiler import ExcelCompiler
        if self.origin.startswith('inmem'):
            return
        base = os.path.join(self.tmp, 'wb_' + self.origin)
        if self.origin.startswith('xlsx'):
            stored = {a: v[1] for a, v in W.scratch_values(self.spec).items() if v[0] == 'ok'}
            self.path = base + '.xlsx'
            W.write_xlsx(self.spec, self.path, stored)
        else:
            m = W.compile_inmem(self.spec)
            for a in self.fam['cells']:
                try:
                    m.evaluate(a)
                except Exception:
                    pass
            self.path = base + '.' + self.origin
            m.to_file(self.path)

    def new(self):
        if self.threads:
            workers = [explore.Worker(), explore.Worker()]
            st = workers[0].call(self._new)
            st['workers'] = workers
            return st
        return self._new()

    def dispose(self, st):
        for w in st.get('workers', ()):
            w.stop()

    def _new(self):
        from pycel.excelcompiler import ExcelCompiler
        if self.origin.startswith('inmem'):
            m = W.compile_inmem(self.spec)
        elif self.origin.startswith('xlsx'):
            m = ExcelCompiler(filename=self.path)
        else:
            m = ExcelCompiler.from_file(self.path)
        assign = {}
        if self.origin.endswith('-part'):
            # a partly loaded model: only the first formula cell (and what it needs) has been compiled and evaluated
            for a in W.formula_cells(self.spec)[:1]:
                try:
                    m.evaluate(a)
                except Exception:
                    pass
        if self.origin.endswith('-warm') or self.origin.endswith('-warm2'):
            # every cell built and evaluated before the explored history starts (not counted in the depth)
            for a in self.fam['cells']:
                try:
                    m.evaluate(a)
                except Exception:
                    pass
        if self.origin.endswith('-warm2'):
            # start from a non-initial state: one round of writes to every input and a full re-evaluation
            for k, i in enumerate(self.fam['inputs']):
                try:
                    m.set_value(i, 40 + k)
                    assign[i] = 40 + k
                except Exception:
                    pass
            for a in self.fam['cells']:
                try:
                    m.evaluate(a)
                except Exception:
                    pass
        return {'m': m, 'assign': assign}

    def ref(self, assign):
        key = tuple(sorted((a, W.tag(v)) for a, v in assign.items()))
        if key not in self.refmemo:
            self.refmemo[key] = W.scratch_values(self.spec, assign, addrs=self.targets)
        return self.refmemo[key]

    def step(self, st, op):
        if op[0] == 'thr':
            return st['workers'][op[1]].call(lambda: self.step(st, op[2]))
        m = st['m']
        if op[0] == 'ev':
            try:
                return ('ok', m.evaluate(op[1]))
            except Exception as exc:
                return ('exc', type(exc).__name__, str(exc)[:200])
        elif op[0] == 'recalc':
            try:
                m.recalculate()
                return ('recalc',)
            except Exception as exc:
                return ('exc', type(exc).__name__, str(exc)[:200])
        elif op[0] in ('setmany', 'setrange'):
            wr = self.writes(op)
            if any(a not in m.cell_map for a, _ in wr):
                return ('refused',)      # as for a single cell that is not in the model yet (nothing is written)
            try:
                if op[0] == 'setmany':
                    m.set_value(list(op[1]), list(op[2]))
                else:
                    m.set_value(op[1], [list(r) for r in op[2]])
            except Exception as exc:
                return ('exc', type(exc).__name__, str(exc)[:200])
            st['assign'] = dict(st['assign'])
            for a, v in wr:
                st['assign'][a] = v
            return ('set', 0)
        else:
            _, addr, v = op
            before = None
            try:
                before = {a for a, c in m.cell_map.items()
                          if (c.formula or ':' in a) and c.value is not None}
            except Exception:
                pass
            try:
                m.set_value(addr, v)
            except AssertionError as exc:
                if 'not found in the cell map' in str(exc):
                    return ('refused',)
                return ('exc', 'AssertionError', str(exc)[:200])
            except Exception as exc:
                return ('exc', type(exc).__name__, str(exc)[:200])
            st['assign'] = dict(st['assign'])
            st['assign'][addr] = v
            n_inv = 0
            if before is not None:
                try:
                    n_inv = sum(1 for a in before if m.cell_map[a].value is None)
                except Exception:
                    pass
            return ('set', n_inv)

    def check(self, st, hist, op, obs):
        if op[0] == 'thr':
            return self.check(st, hist, op[2], obs)
        if op[0] == 'recalc':
            if obs[0] == 'exc':
                ref = self.ref(st['assign'])
                if all(v[0] == 'ok' for v in ref.values()):
                    return f'recalculate() raised {obs[1]}: {obs[2]}'
            return None
        if op[0] in ('set', 'setmany', 'setrange'):
            if obs[0] == 'exc':
                return f'set_value{tuple(op[1:])} raised {obs[1]}: {obs[2]}'
            if obs[0] == 'set' and obs[1]:
                self.invalidating += 1
            return None
        exp = self.ref(st['assign'])[op[1]]
        if exp[0] != 'ok':
            return None     # the from-scratch model itself cannot evaluate this address: not judged
        if obs[0] != 'ok':
            return (f'evaluate({op[1]}) raised {obs[1]} ({obs[2]}) but from-scratch gives {W.show(exp[1])}')
        if not W.veq(obs[1], exp[1]):
            return f'evaluate({op[1]}) = {W.show(obs[1])} but from-scratch compile gives {W.show(exp[1])}'
        return None

    def canon(self, st):
        k = explore.canon_compiler(st['m'])
        if k[0] == 'NOKEY':
            return k
        return (k, tuple(sorted((a, W.tag(v)) for a, v in st['assign'].items())))

    def stale_stored_via_empty(self, hist, op, obs):
        """defect model of KF-C01-stored-empty-text: every wrong element is a strict descendant of a formula cell
        whose stored result is the empty string (read back as 'no value') and shows exactly its stored value"""
        if not self.origin.startswith('xlsx') or op[0] != 'ev' or obs[0] != 'ok':
            return False
        init = W.scratch_values(self.spec)
        deps = W.spec_deps(self.spec)
        empties = [c for c in W.formula_cells(self.spec) if init.get(c, ('x',))[0] == 'ok' and init[c][1] in ('', None)]
        below = set()
        for e in empties:
            below |= W.descendants(deps, e) - {e}
        if not below:
            return False
        assign = {}
        for o in list(hist):
            for a, v in self.writes(o):
                assign[a] = v
        exp = self.ref(assign)[op[1]]
        if exp[0] != 'ok':
            return False
        sh, ref = W.split_addr(op[1])
        if ':' in ref and W.CELL_RE.match(ref.split(':')[0]) and W.CELL_RE.match(ref.split(':')[1]):
            members = [f'{sh}!{c}' for row in W.range_cells(ref) for c in row]
            flat = lambda v: [x for r in v for x in (r if isinstance(r, tuple) else (r,))] if isinstance(v, tuple) else [v]   # noqa: E731
            o, e = flat(obs[1]), flat(exp[1])
            if len(o) != len(members) or len(e) != len(members):
                return False
        elif ':' in ref:
            return False
        else:
            members, o, e = [op[1]], [obs[1]], [exp[1]]
        wrong = [(m, x) for m, x, y in zip(members, o, e) if not W.veq(x, y)]
        return bool(wrong) and all(m in below and init.get(m, ('x',))[0] == 'ok' and W.veq(x, init[m][1]) for m, x in wrong)

    def case(self, hist, op, obs):
        return dict(kind='history', wb=self.fam['name'], origin=self.origin + ('+thr' if self.threads else ''), fam=_strip(self.fam),
                    hist=[list(o) for o in hist], op=list(op), observed=jsonable(obs),
                    stale_stored_via_empty=self.stale_stored_via_empty(hist, op, obs))


def _strip(fam):
    return {k: fam[k] for k in ('name', 'spec', 'ranges', 'unbounded', 'inputs', 'cells')}


def work(job):
    fam, origin, values, depth, max_states = job[:5]
    shard = job[5] if len(job) > 5 else None
    acc = Acc()
    tmp = tempfile.mkdtemp(prefix='c01_')
    try:
        p = P(fam, origin, values, tmp)
        res = explore.bfs(p, depth, acc, max_states=max_states, shard=shard)
        acc.add('states', res['states'])
        acc.add('transitions', res['transitions'])
        acc.add('transitions_' + origin + f'_d{depth}', res['transitions'])
        acc.add('evaluations', res['transitions'])
        acc.add('traces_validated_against_impl', res['transitions'])
        acc.add('distinct_nontrivial', p.invalidating)
        acc.add('jobs')
        acc.add('jobs_fixpoint', int(res['fixpoint']))
        acc.add('jobs_capped', int(res['capped']))
        acc.add('jobs_nokey', int(res['nokey']))
        acc.add('from_scratch_compiles', len(p.refmemo))
        acc.add(f'depth_completed_{res["depth_completed"]}')
        for r in p.refmemo.values():
            for a, v in r.items():
                acc.outcome(repr((a, W.tag(v[1]) if v[0] == 'ok' else v)))
        if fam['name'] in ('fan_range', 'types') and origin == 'inmem':
            acc.sample(dict(workbook=fam['name'], origin=origin, cells=fam['spec']['sheets'],
                            example_history=[['ev', fam['cells'][-1]], list(p.ops[-1]), ['ev', fam['cells'][-1]]],
                            n_ops=len(p.ops), result=res))
    finally:
        shutil.rmtree(tmp, ignore_errors=True)
    return acc.result()


def run(ctx):
    fams = family.curated()
    jobs = []
    if ctx.thorough:
        values = VALUES_THOROUGH
        for f in fams:
            for o in ORIGINS:
                jobs.append((f, o, values, 4 if o.startswith('inmem') else 3, 60000))
        for f in family.enumerated():
            jobs.append((f, 'inmem', VALUES_QUICK, 3, 20000))
        for f in fams:
            jobs.append((f, 'inmem+thr', VALUES_SMALL, 3, 60000))
            jobs.append((f, 'inmem-warm+thr', VALUES_SMALL, 3, 60000))
    else:
        values = VALUES_QUICK
        for f in fams:
            jobs.append((f, 'inmem', VALUES_SMALL, 3, 8000))
            # the full value alphabet on the first two inputs (all inputs get the small alphabet in the cold job)
            # (the first input with the full alphabet; the first two together with the small one)
            f2 = dict(f, inputs=f['inputs'][:2]) if len(f['inputs']) > 2 else f
            jobs.append((dict(f, inputs=f['inputs'][:1]), 'inmem-warm', VALUES_QUICK, 3, 8000))
            if len(f['inputs']) > 1:
                jobs.append((f2, 'inmem-warm', VALUES_SMALL, 3, 8000))
            jobs.append((f, 'inmem-warm2', VALUES_SMALL, 2, 8000))
            jobs.append((f, 'xlsx', [7, None, True, False], 3, 8000))      # TRUE / FALSE: the logical twins of stored 1 / 0
            jobs.append((f, 'xlsx-warm', VALUES_SMALL, 2, 8000))
            # partly loaded file model: later loads meet stored results after the writes (TRUE / FALSE: twins of stored 1 / 0)
            jobs.append((dict(f, inputs=f['inputs'][:2]), 'xlsx-part', [7, True, False], 3, 8000))
            jobs.append((f, 'xlsx-warm2', [7, None], 2, 8000))
            for o in ('yml', 'json', 'pkl'):
                jobs.append((f2 if o == 'yml' else f, o, VALUES_SMALL + [2.5, 2.5000000000000004], 3 if o == 'yml' else 2, 8000))
            if f['name'] in DEEP:
                # depth 4 with one input and two values: write, read, write again, read -- from a partly loaded
                # and a fully loaded model
                for i in f['inputs'][:1]:
                    f1 = dict(f, inputs=[i])
                    for o in ('inmem-part', 'inmem-warm'):
                        jobs.append((f1, o, [7, 8], 4, 20000))
            if f['name'] in THREADED:
                # every operation of the history placed on one of two threads (the model is built on the first)
                f3 = dict(f, inputs=f['inputs'][:2])
                jobs.append((f3, 'inmem+thr', [7, None], 3, 8000))
                jobs.append((f3, 'inmem-warm+thr', [7, None], 3, 8000))
    # rotate (never sample): the seed only changes the order jobs are started in
    sharded = []
    for j in jobs:
        nops = len(j[0]['cells']) + len(j[0]['ranges']) + len(j[0]['unbounded']) + len(j[0]['inputs']) * len(j[2])
        n = 1 if j[3] < 3 else 4 if j[3] >= 4 else (8 if nops > 40 else 4 if nops > 28 else 2 if nops > 20 else 1)
        for k in range(n):
            sharded.append(j + ((k, n),))
    jobs = sorted(sharded, key=lambda j: -(len(j[0]['inputs']) * len(j[2])) * j[3])
    k = ctx.seed % max(1, len(jobs))
    jobs = jobs[k:] + jobs[:k]
    ctx.extra['workbooks'] = len({j[0]['name'] for j in jobs})
    ctx.extra['origins'] = ORIGINS
    ctx.extra['values_written'] = [repr(v) for v in values]
    ctx.pmap(work, jobs, timeout=3000)
    ctx.extra['max_depth_completed'] = max([int(k.rsplit('_', 1)[1]) for k in ctx.counts
                                            if k.startswith('depth_completed_')] or [0])
    ctx.extra['exhaustive'] = ctx.counts.get('jobs_capped', 0) == 0


def replay(case):
    fam = case['fam']
    tmp = tempfile.mkdtemp(prefix='c01r_')
    try:
        p = P(fam, case['origin'], [], tmp)
        st = p.new()
        def tup(o):
            return tuple(tup(x) if isinstance(x, list) and x and x[0] in ('ev', 'set', 'setmany', 'setrange', 'recalc') else x for x in o)
        hist = [tup(o) for o in case['hist']]
        lines = [f"workbook {fam['name']} origin={case['origin']} cells={fam['spec']['sheets']}"]
        for o in hist:
            lines.append(f'  {o} -> {p.step(st, o)!r}')
        op = tup(case['op'])
        obs = p.step(st, op)
        msg = p.check(st, tuple(hist), op, obs)
        p.dispose(st)
        lines.append(f'  {op} -> {obs!r}')
        lines.append(f'  verdict: {msg or "agrees with from-scratch compile"}')
        return bool(msg), '\n'.join(lines)
    finally:
        shutil.rmtree(tmp, ignore_errors=True)
