"""C16 -- lookup functions agree with a linear-scan definition."""
import itertools
import re

from mc import feval, wb as W
from mc.ref import ops as R
from mc.runner import Acc, jsonable

ID = 'C16'
LEVEL = 'model_checking'
RULE = ('MATCH(v, a, 0): every vector of length <= 4 (5 thorough) over a 9-value mixed pool x 20 lookup values (incl. '
        'wildcard patterns that are prefixes / suffixes of longer cells) vs a first-match linear scan; MATCH(v, a, +-1): '
        'every vector sorted in Excel order (numbers < text < logicals, incl. negatives) of length <= 5 (6) with 0-3 '
        'leading and 0-2 trailing blanks x every lookup value, judged by the relational specification (a position holding '
        'the largest value <= v / smallest >= v of v\'s type, #N/A iff none); VLOOKUP / HLOOKUP / LOOKUP (vector and array '
        'form incl. square arrays) == INDEX at the MATCH position, VLOOKUP(table) == HLOOKUP(transpose), result indices '
        'from -1 to size+1. distinct_nontrivial = cases with duplicates, mixed types, blanks or wildcards.')
ASSUMPTIONS = ['an empty cell never equals the lookup value in an exact match (it holds no value)',
               'for +-1 a result is accepted if it satisfies the specification under either reading of end blanks (ignored / neutral value)',
               'which of several equal candidates is returned is not judged ("a position")']
GROUP = ('fn', 'verdict')

POOL0 = [1, 2, 3, 'a', 'ab', 'abc', 'B', True, None]
LOOKUPS = [1, 2, 3, 0, 2.5, 9, 'a', 'A', 'ab', 'b', 'c', 'a?', 'a*', '?b', '*c', 'a??', '*b*', True, False, 'abcd']
SORTED_POOL = [-5, -3, 1, 2, 3, 'a', 'ab', 'B', False, True]
LOOKUPS1 = [-6, -5, -4, -3, 0, 1, 1.5, 2, 3, 9, 'a', 'A', 'aa', 'ab', 'b', 'c', '', False, True]


def typ(x):
    return 2 if isinstance(x, bool) else 1 if isinstance(x, str) else 0


def key(x):
    return x.lower() if isinstance(x, str) else x


def wild(pat, text):
    rx = ''.join('.*' if ch == '*' else '.' if ch == '?' else re.escape(ch) for ch in pat)
    return re.fullmatch(rx, text, re.I | re.S) is not None


def ref_match0(v, vec):
    """first position (1-based) or '#N/A'; None = unjudged"""
    for i, x in enumerate(vec, 1):          # an empty cell holds no value: it equals neither 0 nor "" nor FALSE
        if x is None:
            continue
        if typ(x) != typ(v):
            continue
        if isinstance(v, str):
            if ('*' in v or '?' in v):
                if wild(v, x):
                    return i
            elif x.lower() == v.lower():
                return i
        elif x == v:
            return i
    return '#N/A'


def acceptable1(v, vec, sign, got):
    """relational spec for match type sign (+1 / -1); True / False"""
    def candidates(blank_as):
        out = []
        for i, x in enumerate(vec, 1):
            if x is None:
                if blank_as is None:
                    continue
                x = blank_as
            if typ(x) != typ(v):
                continue
            if (key(x) <= key(v)) if sign == 1 else (key(x) >= key(v)):
                out.append((key(x), i))
        return out
    neutral = False if isinstance(v, bool) else '' if isinstance(v, str) else 0
    ok = False
    for reading in (None, neutral):
        c = candidates(reading)
        if not c:
            if got == '#N/A':
                ok = True
            continue
        best = max(k for k, _ in c) if sign == 1 else min(k for k, _ in c)
        if got in [i for k, i in c if k == best]:
            ok = True
    return ok


def col_env(vec, col='A', row0=1):
    env = {}
    for i, x in enumerate(vec):
        if x is not None:
            env[f'{col}{row0 + i}'] = x
    return env


def work_match0(job):
    k, m, maxlen = job
    acc = Acc()
    ev = feval.Evaluator()
    i = 0
    for n in range(1, maxlen + 1):
        for vec in itertools.product(POOL0, repeat=n):
            i += 1
            if i % m != k:
                continue
            env = col_env(vec)
            renv = {f'{W.get_column_letter(j + 1)}9': x for j, x in enumerate(vec) if x is not None}
            env.update(renv)
            rng = f'A1:A{n}' if n > 1 else 'A1:A1'
            rrng = f'A9:{W.get_column_letter(n)}9'
            nontriv = len(set(map(repr, vec))) < n or len({typ(x) for x in vec if x is not None}) > 1 or None in vec
            for v in LOOKUPS:
                env['K1'] = v
                acc.add('states')
                if nontriv or (isinstance(v, str) and ('*' in v or '?' in v)):
                    acc.add('distinct_nontrivial')
                exp = ref_match0(v, vec)
                for f in [f'=MATCH(K1,{rng},0)'] + ([f'=MATCH(K1,{rrng},0)'] if n > 1 else [f'=MATCH(K1,A1,0)']):
                    obs = ev.run(f, env)
                    acc.add('evaluations')
                    case = dict(kind='match0', fn='MATCH0', vec=list(vec), v=v, formula=f)
                    if obs[0] != 'ok':
                        acc.violation(dict(case, verdict='raised', exc=obs[1]), f'{f} over {list(vec)} looking up {v!r} raised {obs[1]}: {obs[2][-100:]}')
                    elif exp is not None and obs[1] != exp:
                        acc.violation(dict(case, verdict='wrong-position', observed=jsonable(obs[1]), expected=exp),
                                      f'{f} over {list(vec)} looking up {v!r} = {obs[1]!r}, first match by linear scan is {exp!r}')
    if k == 0:
        acc.sample(dict(vector=['abc', 'ab', 'B'], lookup='a?', match_type=0, expected=2))
    acc.counts['transitions'] = acc.counts.get('evaluations', 0)
    return acc.result()


def sorted_vectors(maxlen):
    for n in range(1, maxlen + 1):
        for combo in itertools.combinations_with_replacement(range(len(SORTED_POOL)), n):
            core = [SORTED_POOL[i] for i in combo]
            for lead in range(0, 4):
                for trail in range(0, 3):
                    if lead + trail + n > maxlen + 2:
                        continue
                    yield [None] * lead + core + [None] * trail


def work_match1(job):
    k, m, maxlen = job
    acc = Acc()
    ev = feval.Evaluator()
    for i, vec in enumerate(sorted_vectors(maxlen)):
        if i % m != k:
            continue
        n = len(vec)
        if n < 2:
            continue
        for sign in (1, -1):
            data = vec if sign == 1 else list(reversed(vec))
            env = col_env(data)
            rng = f'A1:A{n}'
            for v in LOOKUPS1:
                env['K1'] = v
                acc.add('states')
                acc.add('distinct_nontrivial', int(None in data or len(set(map(repr, data))) < n))
                forms = [f'=MATCH(K1,{rng},{sign})'] + ([f'=MATCH(K1,{rng})'] if sign == 1 else [])
                for f in forms:
                    obs = ev.run(f, env)
                    acc.add('evaluations')
                    case = dict(kind='match1', fn=f'MATCH{sign}', vec=list(data), v=v, formula=f, sign=sign)
                    if obs[0] != 'ok':
                        acc.violation(dict(case, verdict='raised', exc=obs[1]), f'{f} over {data} looking up {v!r} raised {obs[1]}')
                        continue
                    if v == '' and None in data:
                        continue
                    if not acceptable1(v, data, sign, obs[1]):
                        acc.violation(dict(case, verdict='wrong-position', observed=jsonable(obs[1])),
                                      f'{f} over sorted {data} looking up {v!r} = {obs[1]!r}: not a position holding the '
                                      f'{"largest value <=" if sign == 1 else "smallest value >="} {v!r} of its type (nor #N/A when none exists)')
    if k == 0:
        acc.sample(dict(vector=[None, None, None, -5, -3], lookup=-4, match_type=1, expected=4))
    acc.counts['transitions'] = acc.counts.get('evaluations', 0)
    return acc.result()


def work_tables(job):
    k, m = job
    acc = Acc()
    ev = feval.Evaluator()
    keys_pool = [[1, 2, 3], [1, 1, 3], ['a', 'ab', 'B'], [1, 'a', True], [None, 2, 3], [2, 3, None], ['abc', 'ab', 'a'],
                 [-5, -3, 1], [1, 2], [1, 2, 3, 9]]
    lookups = [1, 2, 2.5, 3, 0, 9, -4, 'a', 'AB', 'a?', 'zz', True]
    i = 0
    for keys in keys_pool:
        h = len(keys)
        for w in (1, 2, 3, h):
            i += 1
            if i % m != k:
                continue
            # table: first column keys, other columns position coded
            env = {}
            tenv = {}
            for r in range(h):
                for c in range(w):
                    val = keys[r] if c == 0 else 100 * (r + 1) + c
                    if val is not None:
                        env[f'{W.get_column_letter(c + 1)}{r + 1}'] = val
                        tenv[f'{W.get_column_letter(r + 1)}{c + 11}'] = val
            env.update(tenv)
            tbl = f'A1:{W.get_column_letter(w)}{h}'
            ttbl = f'A11:{W.get_column_letter(h)}{w + 10}'
            keyr = f'A1:A{h}'
            for v in lookups:
                env['K1'] = v
                for exact in (False, True):
                    mt = 0 if exact else 1
                    for idx in range(-1, w + 2):
                        env['K2'] = idx
                        acc.add('states')
                        acc.add('distinct_nontrivial', int(idx <= 0 or idx > w or None in keys))
                        f_v = f'=VLOOKUP(K1,{tbl},K2,{"FALSE" if exact else "TRUE"})'
                        f_h = f'=HLOOKUP(K1,{ttbl},K2,{"FALSE" if exact else "TRUE"})'
                        f_i = f'=INDEX({tbl},MATCH(K1,{keyr},{mt}),K2)'
                        ov, oh, oi = ev.run(f_v, env), ev.run(f_h, env), ev.run(f_i, env)
                        acc.add('evaluations', 3)
                        case = dict(kind='table', fn='VLOOKUP', keys=keys, width=w, v=v, exact=exact, idx=idx)
                        if ov[0] != 'ok' or oh[0] != 'ok':
                            acc.violation(dict(case, verdict='raised'), f'{f_v} / {f_h} keys={keys} v={v!r} idx={idx}: {ov[:2]!r} {oh[:2]!r}')
                            continue
                        if not W.veq(ov[1], oh[1]):
                            acc.violation(dict(case, verdict='vlookup-differs-from-hlookup-of-transpose', observed=jsonable(ov[1]),
                                               other=jsonable(oh[1])),
                                          f'{f_v} = {ov[1]!r} but HLOOKUP on the transpose = {oh[1]!r} (keys {keys}, v={v!r}, index {idx})')
                        if idx <= 0:
                            exp = '#VALUE!'
                        elif idx > w:
                            exp = '#REF!'
                        else:
                            exp = None
                        if exp is not None:
                            if ov[1] != exp:
                                acc.violation(dict(case, verdict='index-out-of-range', observed=jsonable(ov[1]), expected=exp),
                                              f'{f_v} with result index {idx} on a {h}x{w} table = {ov[1]!r}, expected {exp}')
                            continue
                        if oi[0] == 'ok' and h > 1 and not W.veq(ov[1], oi[1]):
                            if w == 1 and oi[1] == '#REF!':
                                continue     # INDEX(column, r, 1) spelling differences for one-column tables are not lookup matters
                            acc.violation(dict(case, verdict='differs-from-index-at-match', observed=jsonable(ov[1]), expected=jsonable(oi[1])),
                                          f'{f_v} = {ov[1]!r} but {f_i} = {oi[1]!r} (keys {keys}, v={v!r})')
                # LOOKUP vector form and array form
                if h > 1:
                    resr = f'{W.get_column_letter(w)}1:{W.get_column_letter(w)}{h}'
                    f_l = f'=LOOKUP(K1,{keyr},{resr})'
                    f_i = f'=INDEX({resr},MATCH(K1,{keyr},1))'
                    ol, oi = ev.run(f_l, env), ev.run(f_i, env)
                    acc.add('evaluations', 2)
                    if ol[0] != 'ok' or (oi[0] == 'ok' and not W.veq(ol[1], oi[1])):
                        acc.violation(dict(kind='table', fn='LOOKUP', verdict='differs-from-index-at-match', keys=keys, width=w, v=v,
                                           observed=jsonable(ol[:2]), expected=jsonable(oi[:2])),
                                      f'{f_l} = {ol[:2]!r} but {f_i} = {oi[:2]!r} (keys {keys}, v={v!r})')
                    # the two vectors need not lie the same way: keys in a column with results in a row, and the reverse
                    rcol = W.get_column_letter(w)
                    env_m = dict(env)
                    for r_ in range(1, h + 1):
                        cl = W.get_column_letter(r_)
                        if f'{rcol}{r_}' in env:
                            env_m[f'{cl}20'] = env[f'{rcol}{r_}']
                        if f'A{r_}' in env:
                            env_m[f'{cl}21'] = env[f'A{r_}']
                    last = W.get_column_letter(h)
                    for f_m, f_im in ((f'=LOOKUP(K1,{keyr},A20:{last}20)', f'=INDEX(A20:{last}20,1,MATCH(K1,{keyr},1))'),
                                      (f'=LOOKUP(K1,A21:{last}21,{resr})', f'=INDEX({resr},MATCH(K1,A21:{last}21,1))')):
                        om, oim = ev.run(f_m, env_m), ev.run(f_im, env_m)
                        acc.add('evaluations', 2)
                        if om[0] != 'ok' or (oim[0] == 'ok' and not W.veq(om[1], oim[1])):
                            acc.violation(dict(kind='table', fn='LOOKUP-mixed', verdict='differs-from-index-at-match', keys=keys, width=w, v=v,
                                               observed=jsonable(om[:2]), expected=jsonable(oim[:2])),
                                          f'{f_m} = {om[:2]!r} but {f_im} = {oim[:2]!r} (keys {keys}, v={v!r}; one vector is a column, the other a row)')
                    if w > 1:
                        f_a = f'=LOOKUP(K1,{tbl})'
                        oa = ev.run(f_a, env)
                        acc.add('evaluations')
                        if w <= h:
                            f_w = f'=INDEX({tbl},MATCH(K1,{keyr},1),{w})'
                        else:
                            f_w = f'=INDEX({tbl},{h},MATCH(K1,A1:{W.get_column_letter(w)}1,1))'
                        ow = ev.run(f_w, env)
                        if oa[0] != 'ok' or (ow[0] == 'ok' and not W.veq(oa[1], ow[1])):
                            acc.violation(dict(kind='table', fn='LOOKUP-array', verdict='differs-from-index-at-match', keys=keys, width=w,
                                               v=v, observed=jsonable(oa[:2]), expected=jsonable(ow[:2])),
                                          f'{f_a} on a {h}x{w} array = {oa[:2]!r} but {f_w} = {ow[:2]!r} (keys {keys}, v={v!r})')
    acc.counts['transitions'] = acc.counts.get('evaluations', 0)
    return acc.result()


def work_table_history(job):
    """the same lookup formulas over a table whose key cells are re-assigned between evaluations to values that are
    == equal but of another type (1 / TRUE, 0 / FALSE, 2 / "2"): results may depend only on the current table"""
    acc = Acc()
    ev = feval.Evaluator()
    twins = [[1, 2, 3], [True, 2, 3], [1, 2, 3], [1.0, 2, 3], [0, 1, 2], [False, 1, 2], [0, True, 2], ['1', 2, 3], [1, 2, 3],
             [True, False, 3], [1, 0, 3]]
    lookups = [1, True, 0, False, '1', 2]
    for order in (twins, list(reversed(twins))):
        for keys in order:
            env = {}
            for r, k in enumerate(keys):
                env[f'A{r + 1}'] = k
                env[f'B{r + 1}'] = 100 * (r + 1)
                env[f'{W.get_column_letter(r + 1)}11'] = k
                env[f'{W.get_column_letter(r + 1)}12'] = 100 * (r + 1)
            for v in lookups:
                env['K1'] = v
                exp_pos = ref_match0(v, keys)
                exp = '#N/A' if exp_pos == '#N/A' else 100 * exp_pos
                for f in ('=VLOOKUP(K1,A1:B3,2,FALSE)', '=HLOOKUP(K1,A11:C12,2,FALSE)', '=INDEX(B1:B3,MATCH(K1,A1:A3,0))'):
                    o = ev.run(f, env)
                    acc.add('evaluations')
                    acc.add('states')
                    acc.add('distinct_nontrivial')
                    if exp_pos is not None and (o[0] != 'ok' or not W.veq(o[1], exp)):
                        acc.violation(dict(kind='history', fn=f.split('(')[0][1:], verdict='wrong-value', keys=jsonable(keys), v=jsonable(v),
                                           observed=jsonable(o[:2]), expected=jsonable(exp)),
                                      f'{f} with keys {keys!r} (after earlier evaluations over type-twin tables) looking up {v!r} = {o[:2]!r}, '
                                      f'linear scan gives {exp!r}')
    acc.counts['transitions'] = acc.counts.get('evaluations', 0)
    return acc.result()


def work_offgrid(job):
    """result indices off the integer grid: a fractional index selects an adjacent whole row / column (never an
    exception, never another cell), an index beyond the table - however large - is #REF!, below 1 #VALUE!"""
    acc = Acc()
    ev = feval.Evaluator()
    for h, w in ((3, 3), (2, 4), (4, 2), (1, 3), (3, 1)):
        env = {}
        for r in range(h):
            for c in range(w):
                env[f'{W.get_column_letter(c + 1)}{r + 1}'] = (r + 1) if c == 0 else 100 * (r + 1) + c
        for c in range(1, w):
            env[f'{W.get_column_letter(c + 1)}1'] = c + 1        # first row sorted too, for HLOOKUP
        tbl = f'A1:{W.get_column_letter(w)}{h}'
        forms = [('VLOOKUP', f'=VLOOKUP(1,{tbl},K2,FALSE)', w), ('VLOOKUP', f'=VLOOKUP(1,{tbl},K2)', w),
                 ('HLOOKUP', f'=HLOOKUP(1,{tbl},K2,FALSE)', h), ('INDEX', f'=INDEX({tbl},K2,1)', h), ('INDEX', f'=INDEX({tbl},1,K2)', w),
                 ('INDEX', f'=INDEX({tbl},K2,K2)', min(h, w))]
        if h == 1 or w == 1:
            forms.append(('INDEX', f'=INDEX({tbl},K2)', max(h, w)))
        for fn, f, n in forms:
            for idx in [i + fr for i in range(0, n + 1) for fr in (0.25, 0.5, 0.999)] + [-0.5, -1.5, 1e10, 1e300, -1e300, n + 1, n + 7]:
                o = ev.run(f, dict(env, K2=idx))
                acc.add('evaluations')
                acc.add('states')
                acc.add('distinct_nontrivial')
                case = dict(kind='offgrid', fn=fn, formula=f, shape=[h, w], idx=idx)
                if o[0] != 'ok':
                    acc.violation(dict(case, verdict='raised', exc=o[1]), f'{f} on a {h}x{w} table with K2={idx} raised {o[1]}: {o[2][-80:]}')
                    continue
                if idx >= n + 1:
                    if o[1] != '#REF!':
                        acc.violation(dict(case, verdict='index-out-of-range', observed=jsonable(o[1]), expected='#REF!'),
                                      f'{f} on a {h}x{w} table with K2={idx} = {o[1]!r}, expected #REF!')
                    continue
                if idx < 0:
                    if o[1] != '#VALUE!':
                        acc.violation(dict(case, verdict='index-out-of-range', observed=jsonable(o[1]), expected='#VALUE!'),
                                      f'{f} on a {h}x{w} table with K2={idx} = {o[1]!r}, expected #VALUE!')
                    continue
                lo = int(idx)
                alts = [ev.run(f, dict(env, K2=v))[:2] for v in (lo, lo + 1)]
                if o[:2] not in alts and not any(a[0] == 'ok' and W.veq(o[1], a[1]) for a in alts):
                    acc.violation(dict(case, verdict='fraction-not-adjacent', observed=jsonable(o[1]), expected=jsonable([a[1] for a in alts])),
                                  f'{f} on a {h}x{w} table with K2={idx} = {o[1]!r}; with K2 = {lo} / {lo + 1} it is {alts[0][1]!r} / {alts[1][1]!r}')
    # a table / vector of ONE cell, a vector indexed across its only row / column, a result vector shorter than
    # the lookup vector
    env = {'H1': 1, 'H2': 3, 'H3': 5, 'I1': 'x', 'I2': 'y', 'K1': 1, 'L1': 3, 'M1': 5}
    for f, want, tag in [
            ('=MATCH(1,H1,0)', 1, None), ('=MATCH(1,H1:H1,0)', 1, None), ('=MATCH(2,H1,0)', '#N/A', None), ('=MATCH(1,H1,1)', 1, None),
            ('=VLOOKUP(1,H1:H1,1,FALSE)', 1, 'single-cell-table'), ('=HLOOKUP(1,H1,1,FALSE)', 1, 'single-cell-table'),
            ('=LOOKUP(1,H1)', 1, 'single-cell-table'), ('=INDEX(H1,1,1)', 1, 'single-cell-table'), ('=INDEX(H1,1)', 1, 'single-cell-table'),
            ('=VLOOKUP(1,H1:H1,2,FALSE)', '#REF!', 'single-cell-table'),
            ('=INDEX(H1:H3,0,2)', '#REF!', 'vector-cross-index'), ('=INDEX(H1:H3,0,3)', '#REF!', 'vector-cross-index'),
            ('=INDEX(K1:M1,2,0)', '#REF!', 'vector-cross-index'), ('=INDEX(K1:M1,3,0)', '#REF!', 'vector-cross-index'),
            ('=INDEX(H1:H3,2,1)', 3, None), ('=INDEX(K1:M1,1,2)', 3, None), ('=INDEX(H1:H3,2)', 3, None), ('=INDEX(K1:M1,2)', 3, None),
            ('=LOOKUP(5,H1:H3,I1:I2)', ('#N/A', '#REF!'), None), ('=LOOKUP(3,H1:H3,I1:I2)', 'y', None), ('=LOOKUP(1,H1:H3,I1:I2)', 'x', None)]:
        o = ev.run(f, env)
        acc.add('evaluations')
        acc.add('states')
        acc.add('distinct_nontrivial')
        case = dict(kind='offgrid', fn=f.split('(')[0][1:], formula=f, shape=[1, 1], idx=None, degenerate=tag)
        ok = o[0] == 'ok' and (o[1] in want if isinstance(want, tuple) else W.veq(o[1], want))
        if not ok:
            acc.violation(dict(case, verdict='raised' if o[0] != 'ok' else 'wrong-cell', observed=jsonable(o[:2]), expected=jsonable(want)),
                          f'{f} with H1:H3 = 1, 3, 5; I1:I2 = x, y; K1:M1 = 1, 3, 5 -> {o[:2]!r}, expected {want!r}')
    acc.counts['transitions'] = acc.counts.get('evaluations', 0)
    return acc.result()


def run(ctx):
    m = 64
    ctx.pmap(work_match0, [((k + ctx.seed) % m, m, 5 if ctx.thorough else 4) for k in range(m)], timeout=6000)
    ctx.pmap(work_match1, [(k, m, 6 if ctx.thorough else 5) for k in range(m)], timeout=6000)
    ctx.pmap(work_tables, [(k, 16) for k in range(16)], timeout=6000)
    ctx.pmap(work_table_history, [(0,)], timeout=600)
    ctx.pmap(work_offgrid, [(0,)], timeout=600)
    ctx.counts['traces_validated_against_impl'] = ctx.counts.get('evaluations', 0)
    ctx.extra['pool'] = [repr(p) for p in POOL0]
    ctx.extra['sorted_pool'] = [repr(p) for p in SORTED_POOL]


def replay(case):
    ev = feval.Evaluator()
    if case['kind'] in ('match0', 'match1'):
        env = col_env(case['vec'])
        env.update({f'{W.get_column_letter(j + 1)}9': x for j, x in enumerate(case['vec']) if x is not None})
        env['K1'] = case['v']
        obs = ev.run(case['formula'], env)
        if case['kind'] == 'match0':
            exp = ref_match0(case['v'], case['vec'])
            bad = obs[0] != 'ok' or (exp is not None and obs[1] != exp)
            return bad, f"{case['formula']} over {case['vec']} K1={case['v']!r} -> {obs[:2]!r}; linear scan {exp!r}"
        bad = obs[0] != 'ok' or not acceptable1(case['v'], case['vec'], case['sign'], obs[1])
        return bad, f"{case['formula']} over {case['vec']} K1={case['v']!r} -> {obs[:2]!r}"
    if case['kind'] == 'offgrid':
        r = work_offgrid((0,))
        hits = [m for c, m in r['violations'] if all(c.get(x) == case.get(x) for x in ('formula', 'shape', 'idx'))]
        return bool(hits), '\n'.join(hits[:2]) or 'no violation'
    if case['kind'] == 'history':
        r = work_table_history((0,))
        hits = [m for c, m in r['violations'] if c.get('keys') == case.get('keys') and c.get('v') == case.get('v')]
        return bool(hits), '\n'.join(hits[:2]) or 'no violation'
    r = work_tables((0, 1))
    hits = [m for c, m in r['violations'] if all(c.get(x) == case.get(x) for x in ('fn', 'keys', 'width', 'v', 'exact', 'idx', 'verdict'))]
    return bool(hits), '\n'.join(hits[:2]) or 'no violation'
