"""C14 -- aggregates over ranges follow Excel counting rules."""
import itertools

from mc import feval, wb as W
from mc.runner import Acc, jsonable

ID = 'C14'
LEVEL = 'model_checking'
RULE = ('all vectors of length <= 4 (<= 5 thorough, and length 6 over a 6-value pool) over the pool {1, 2.5, -3, "2", "x", TRUE, blank, #N/A, #DIV/0!} laid '
        'out in every r x c factorisation; SUM / AVERAGE / MIN / MAX / COUNT and SUBTOTAL(n) / SUBTOTAL(100+n) through '
        'compiled formulas vs a reference written from the statement (numeric cells only, first error in reading order); '
        'permutation / reshape invariance (every vector is enumerated, so every permutation is); SUM over every two-block '
        'partition; AVERAGE = SUM/COUNT; SUMPRODUCT of all pairs of equal-shape vectors (length <= 3) and of mismatched '
        'shapes. distinct_nontrivial = vectors x layouts containing at least one non-numeric cell.')
ASSUMPTIONS = ['COUNT over data holding an error may return the number of numeric cells (Excel) or the first error (the statement\'s error clause read literally), nothing else',
               'numbers compared with relative tolerance 1e-12']
GROUP = ('fn', 'verdict')

POOL = [1, 2.5, -3, '2', 'x', True, None, '#N/A', '#DIV/0!']
ERR = ('#N/A', '#DIV/0!')
SUBTOTALS = {1: 'AVERAGE', 2: 'COUNT', 4: 'MAX', 5: 'MIN', 9: 'SUM'}


def nums(v):
    return [x for x in v if isinstance(x, (int, float)) and not isinstance(x, bool)]


def first_err(v):
    for x in v:
        if isinstance(x, str) and x in ERR:
            return x
    return None


def ref(fn, v):
    e = first_err(v)
    n = nums(v)
    if fn == 'COUNT':
        return len(n) if e is None else None          # unjudged with errors
    if e is not None:
        return e
    if fn == 'SUM':
        return sum(n)
    if fn == 'AVERAGE':
        return sum(n) / len(n) if n else '#DIV/0!'
    if fn == 'MIN':
        return min(n) if n else 0
    if fn == 'MAX':
        return max(n) if n else 0
    raise ValueError(fn)


def layouts(n):
    return [(r, n // r) for r in range(1, n + 1) if n % r == 0]


def env_for(v, r, c, col0=1, row0=1):
    env = {}
    k = 0
    for i in range(r):
        for j in range(c):
            if v[k] is not None:
                env[f'{W.get_column_letter(col0 + j)}{row0 + i}'] = v[k]
            k += 1
    return env, f'{W.get_column_letter(col0)}{row0}:{W.get_column_letter(col0 + c - 1)}{row0 + r - 1}'


POOL6 = [1, -3, '2', True, None, '#N/A']


def work(job):
    k, m, maxlen = job
    acc = Acc()
    ev = feval.Evaluator()
    i = 0
    for n in range(1, maxlen + 1):
        for v in itertools.product(POOL if n <= 5 else POOL6, repeat=n):
            i += 1
            if i % m != k:
                continue
            nontriv = len(nums(v)) != n
            for (r, c) in layouts(n):
                env, rng = env_for(v, r, c)
                acc.add('states')
                if nontriv:
                    acc.add('distinct_nontrivial')
                res = {}
                for fn in ('SUM', 'AVERAGE', 'MIN', 'MAX', 'COUNT'):
                    f = f'={fn}({rng})' if n > 1 else f'={fn}(A1:A1)'
                    obs = ev.run(f, env)
                    acc.add('evaluations')
                    res[fn] = obs
                    exp = ref(fn, v)
                    case = dict(kind='agg', fn=fn, values=list(v), layout=[r, c], formula=f)
                    if obs[0] != 'ok':
                        acc.violation(dict(case, verdict='raised', exc=obs[1]), f'{f} over {list(v)} as {r}x{c} raised {obs[1]}: {obs[2][-100:]}')
                    elif exp is None and fn == 'COUNT':
                        # errors present: Excel's COUNT skips them, the statement's error clause would return the first
                        # one -- either reading is accepted, anything else (the length of the error text ...) is not
                        if not (W.veq(obs[1], len(nums(v))) or W.veq(obs[1], first_err(v))):
                            acc.violation(dict(case, verdict='wrong-value', observed=jsonable(obs[1]),
                                               expected=jsonable([len(nums(v)), first_err(v)])),
                                          f'{f} over {list(v)} laid out {r}x{c} = {W.show(obs[1])}: neither the number of numeric '
                                          f'cells ({len(nums(v))}) nor the first error ({first_err(v)})')
                    elif exp is not None and not W.vclose(obs[1], exp, rel=1e-12, abs_=1e-12):
                        acc.violation(dict(case, verdict='wrong-value', observed=jsonable(obs[1]), expected=jsonable(exp)),
                                      f'{f} over {list(v)} laid out {r}x{c} = {W.show(obs[1])}, counting rules give {W.show(exp)}')
                    acc.outcome(repr(exp))
                if first_err(v) is None and all(res[f][0] == 'ok' for f in res):
                    s_, cnt, avg = res['SUM'][1], res['COUNT'][1], res['AVERAGE'][1]
                    want = (s_ / cnt) if cnt else '#DIV/0!'
                    if not W.vclose(avg, want, rel=1e-12, abs_=1e-12):
                        acc.violation(dict(kind='agg', fn='AVERAGE', verdict='avg-not-sum-over-count', values=list(v), layout=[r, c]),
                                      f'AVERAGE {avg!r} != SUM {s_!r} / COUNT {cnt!r} over {list(v)}')
                if (r, c) == layouts(n)[0]:
                    for num, fn in SUBTOTALS.items():
                        for code in (num, 100 + num):
                            f = f'=SUBTOTAL({code},{rng})'
                            obs = ev.run(f, env)
                            acc.add('evaluations')
                            base = res[fn]
                            if obs[0] != base[0] or (obs[0] == 'ok' and not W.vclose(obs[1], base[1], rel=1e-12, abs_=1e-12)):
                                acc.violation(dict(kind='agg', fn=f'SUBTOTAL{code}', verdict='differs-from-named', values=list(v),
                                                   layout=[r, c], formula=f, observed=jsonable(obs[:2]), expected=jsonable(base[:2])),
                                              f'{f} = {obs[:2]!r} but {fn} over {list(v)} = {base[:2]!r}')
                    # SUM additive over every two-block partition (error-free)
                    if first_err(v) is None and n >= 2 and res['SUM'][0] == 'ok':
                        env1, _ = env_for(v, 1, n)
                        for cut in range(1, n):
                            a = f'A1:{W.get_column_letter(cut)}1'
                            b = f'{W.get_column_letter(cut + 1)}1:{W.get_column_letter(n)}1'
                            for f in (f'=SUM({a})+SUM({b})', f'=SUM({a},{b})', f'=SUBTOTAL(9,{a},{b})'):
                                obs = ev.run(f, env1)
                                acc.add('evaluations')
                                if obs[0] != 'ok' or not W.vclose(obs[1], res['SUM'][1], rel=1e-12, abs_=1e-12):
                                    acc.violation(dict(kind='agg', fn='SUM', verdict='not-additive', values=list(v), cut=cut, formula=f,
                                                       observed=jsonable(obs[:2]), expected=jsonable(res['SUM'][1])),
                                                  f'{f} = {obs[:2]!r} but SUM of the whole range {list(v)} = {res["SUM"][1]!r}')
                    if first_err(v) is not None and n >= 2:
                        # with errors a partition must still yield an error of the data (which one: reading order of the args)
                        env1, _ = env_for(v, 1, n)
                        cut = n // 2
                        a = f'A1:{W.get_column_letter(cut)}1'
                        b = f'{W.get_column_letter(cut + 1)}1:{W.get_column_letter(n)}1'
                        obs = ev.run(f'=SUM({a},{b})', env1)
                        acc.add('evaluations')
                        if obs[0] != 'ok' or obs[1] != first_err(v):
                            acc.violation(dict(kind='agg', fn='SUM', verdict='wrong-error', values=list(v), observed=jsonable(obs[:2]),
                                               expected=first_err(v)),
                                          f'=SUM({a},{b}) over {list(v)} = {obs[:2]!r}, first error in reading order is {first_err(v)}')
    if k == 0:
        acc.sample(dict(values=[1, 'x', True, None], layout=[2, 2], SUM=1, COUNT=1, AVERAGE=1, MIN=1, MAX=1))
        acc.sample(dict(values=['2', '#N/A', 1, '#DIV/0!'], layout=[1, 4], SUM='#N/A'))
    acc.counts['transitions'] = acc.counts.get('evaluations', 0)
    return acc.result()


def work_sumproduct(job):
    k, m, maxlen = job
    acc = Acc()
    ev = feval.Evaluator()
    pool = [p for p in POOL if p not in ERR]
    i = 0
    for n in range(1, maxlen + 1):
        for a in itertools.product(pool, repeat=n):
            for b in itertools.product(pool, repeat=n):
                i += 1
                if i % m != k:
                    continue
                for (r, c) in layouts(n):
                    env, ra = env_for(a, r, c)
                    env2, rb = env_for(b, r, c, col0=6)
                    env.update(env2)
                    f = f'=SUMPRODUCT({ra},{rb})' if n > 1 else '=SUMPRODUCT(A1:A1,F1:F1)'
                    obs = ev.run(f, env)
                    acc.add('evaluations')
                    acc.add('states')
                    acc.add('distinct_nontrivial', int(len(nums(a)) != n or len(nums(b)) != n))
                    num = lambda x: x if isinstance(x, (int, float)) and not isinstance(x, bool) else 0    # noqa: E731
                    exp = sum(num(x) * num(y) for x, y in zip(a, b))
                    if obs[0] != 'ok' or not W.vclose(obs[1], exp, rel=1e-12, abs_=1e-12):
                        acc.violation(dict(kind='sumproduct', fn='SUMPRODUCT', verdict='wrong-value', a=list(a), b=list(b), layout=[r, c],
                                           observed=jsonable(obs[:2]), expected=exp,
                                           scalar_blank_value_error=(n == 1 and (a[0] is None or b[0] is None)
                                                                     and obs[:2] == ('ok', '#VALUE!'))),
                                      f'{f} with {list(a)} x {list(b)} ({r}x{c}) = {obs[:2]!r}, sum of products (non-numbers as 0) = {exp!r}')
    if k == 0:
        env = {'A1': 1, 'A2': 2, 'A3': 3, 'F1': 1, 'F2': 2, 'B1': 5, 'B2': 6, 'B3': 7}
        for f in ('=SUMPRODUCT(A1:A3,F1:F2)', '=SUMPRODUCT(A1:A3,A1:B3)', '=SUMPRODUCT(A1:B1,A1:A2)'):
            obs = ev.run(f, env)
            acc.add('evaluations')
            if obs[0] != 'ok' or obs[1] != '#VALUE!':
                acc.violation(dict(kind='sumproduct', fn='SUMPRODUCT', verdict='shape-mismatch', formula=f, observed=jsonable(obs[:2])),
                              f'{f} (different shapes) = {obs[:2]!r}, expected #VALUE!')
    acc.counts['transitions'] = acc.counts.get('evaluations', 0)
    return acc.result()


def work_workbook(job):
    """a subset again through ExcelCompiler.evaluate on a real workbook (binds the shortcut to the public API)"""
    vs, = job
    acc = Acc()
    for v in vs:
        n = len(v)
        cells = {f'A{i + 1}': x for i, x in enumerate(v) if x is not None}
        for j, fn in enumerate(('SUM', 'AVERAGE', 'MIN', 'MAX', 'COUNT')):
            cells[f'C{j + 1}'] = f'={fn}(A1:A{n})'
        m = W.compile_inmem({'sheets': {'S': cells}, 'active': 'S'})
        for j, fn in enumerate(('SUM', 'AVERAGE', 'MIN', 'MAX', 'COUNT')):
            exp = ref(fn, v)
            try:
                obs = ('ok', m.evaluate(f'S!C{j + 1}'))
            except Exception as exc:
                obs = ('exc', type(exc).__name__, str(exc)[-100:])
            acc.add('evaluations')
            acc.add('through_workbook')
            if exp is not None and (obs[0] != 'ok' or not W.vclose(obs[1], exp, rel=1e-12, abs_=1e-12)):
                acc.violation(dict(kind='agg', fn=fn, verdict='wrong-value', values=list(v), layout=[n, 1], via='workbook',
                                   observed=jsonable(obs[:2]), expected=jsonable(exp)),
                              f'workbook: ={fn}(A1:A{n}) over {list(v)} = {obs[:2]!r}, counting rules give {exp!r}')
    acc.counts['transitions'] = acc.counts.get('evaluations', 0)
    return acc.result()


PRODUCERS = ['SUM({r})', 'AVERAGE({r})', 'MIN({r})', 'MAX({r})', 'COUNT({r})', 'SUBTOTAL(9,{r})', 'SUBTOTAL(1,{r})',
             'SUMPRODUCT({r})', 'SUMPRODUCT({r},{q})', 'SUMPRODUCT({r},{r})']
DATASETS = [([2, 3], [4, 5]), ([2.5, 3], [4, 0.5]), ([10000000000, 3], [10000000000, 3]), ([3037000500, 1], [3037000500, 1]),
            ([-7, 'x'], [2, True]), ([1e15, 1], [1e15, 1])]


def work_chained(job):
    """the result of one aggregate is a cell of the range another one reads: it must be a plain number (python int /
    float) that the consumer counts like any other numeric cell"""
    acc = Acc()
    num = lambda x: x if isinstance(x, (int, float)) and not isinstance(x, bool) else 0    # noqa: E731
    for a, b in DATASETS:
        for p in PRODUCERS:
            cells = {f'A{i + 1}': x for i, x in enumerate(a)}
            cells.update({f'B{i + 1}': x for i, x in enumerate(b)})
            cells['C1'] = '=' + p.format(r=f'A1:A{len(a)}', q=f'B1:B{len(b)}')
            cells['C2'] = 1
            consumers = ['SUM', 'AVERAGE', 'MIN', 'MAX', 'COUNT']
            for j, q in enumerate(consumers):
                cells[f'D{j + 1}'] = f'={q}(C1:C2)'
            cells['D6'] = '=SUMPRODUCT(C1:C2,C1:C2)'
            m = W.compile_inmem({'sheets': {'S': cells}, 'active': 'S'})
            case = dict(kind='chained', fn=p.split('(')[0], producer=p, a=a, b=b)
            try:
                pv = m.evaluate('S!C1')
            except Exception as exc:
                acc.violation(dict(case, verdict='raised', exc=type(exc).__name__), f'={cells["C1"]} over {a}, {b} raised {type(exc).__name__}')
                continue
            acc.add('evaluations')
            acc.add('states')
            acc.add('distinct_nontrivial')
            if type(pv) not in (int, float):
                acc.violation(dict(case, verdict='not-a-plain-number', observed=repr(pv), otype=type(pv).__name__),
                              f'{cells["C1"]} over {a}, {b} returned {pv!r} of type {type(pv).__name__}: not a number another '
                              f'function will count')
                pv = float(pv)
            if 'SUMPRODUCT' in p:
                exp_p = sum(num(x) * num(y) for x, y in zip(a, a if p.endswith('{r},{r})') else b)) if ',' in p else sum(num(x) for x in a)
                if not W.vclose(pv, float(exp_p), rel=1e-12, abs_=1e-12):
                    acc.violation(dict(case, verdict='wrong-value', observed=repr(pv), expected=float(exp_p)),
                                  f'{cells["C1"]} over {a}, {b} = {pv!r}, sum of products = {float(exp_p)!r}')
            for j, q in enumerate(consumers + ['SUMPRODUCT2']):
                exp = ref(q, [pv, 1]) if q != 'SUMPRODUCT2' else pv * pv + 1
                try:
                    obs = ('ok', m.evaluate(f'S!D{j + 1}'))
                except Exception as exc:
                    obs = ('exc', type(exc).__name__, str(exc)[-100:])
                acc.add('evaluations')
                if obs[0] != 'ok' or not W.vclose(obs[1], exp, rel=1e-12, abs_=1e-12):
                    acc.violation(dict(case, verdict='result-cell-not-counted', consumer=q, observed=jsonable(obs[:2]), expected=jsonable(exp)),
                                  f'C1 {cells["C1"]} = {pv!r}, C2 = 1: ={q}(C1:C2) = {obs[:2]!r}, counting rules give {exp!r}')
    acc.counts['transitions'] = acc.counts.get('evaluations', 0)
    return acc.result()


def run(ctx):
    m = 64
    maxlen = 6 if ctx.thorough else 4
    ctx.pmap(work, [((k + ctx.seed) % m, m, maxlen) for k in range(m)], timeout=6000)
    ctx.pmap(work_sumproduct, [(k, 32, 3 if ctx.thorough else 2) for k in range(32)], timeout=6000)
    vs = list(itertools.product(POOL, repeat=3))
    ctx.pmap(work_workbook, [(vs[k::16],) for k in range(16)], timeout=3000)
    ctx.pmap(work_chained, [(0,)], timeout=600)
    ctx.counts['traces_validated_against_impl'] = ctx.counts.get('evaluations', 0)
    ctx.extra['pool'] = [repr(p) for p in POOL]
    ctx.extra['max_len'] = maxlen


def replay(case):
    ev = feval.Evaluator()
    if case['kind'] == 'chained':
        r = work_chained((0,))
        hits = [m for c, m in r['violations'] if all(c.get(x) == case.get(x) for x in ('producer', 'a', 'b', 'verdict', 'consumer'))]
        return bool(hits), '\n'.join(hits[:2]) or 'no violation'
    if case['kind'] == 'sumproduct':
        r = work_sumproduct((0, 1, max(len(case.get('a', [1])), 1)))
        hits = [m for c, m in r['violations'] if c.get('a') == case.get('a') and c.get('b') == case.get('b')]
        return bool(hits), '\n'.join(hits[:2]) or 'no violation'
    v = case['values']
    r, c = case['layout']
    env, rng = env_for(v, r, c)
    fn = case['fn']
    if fn.startswith('SUBTOTAL'):
        f = case['formula']
        obs = ev.run(f, env)
        return True, f'{f} over {v} -> {obs[:2]!r} (expected as {case.get("expected")})' if obs[:2] != tuple(case.get('expected') or ()) else (False, 'agrees')
    f = case.get('formula') or f'={fn}({rng})'
    if case['verdict'] in ('not-additive', 'wrong-error'):
        env, _ = env_for(v, 1, len(v))
    obs = ev.run(f, env)
    exp = case.get('expected', ref(fn, v) if fn in ('SUM', 'AVERAGE', 'MIN', 'MAX', 'COUNT') else None)
    bad = obs[0] != 'ok' or (exp is not None and not W.vclose(obs[1], exp, rel=1e-12, abs_=1e-12))
    return bad, f'{f} over {v} laid out {r}x{c} -> {obs[:2]!r}; expected {exp!r}'
