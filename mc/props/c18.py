"""C18 -- radix conversions are exact inverses on Excel's 10-digit two's-complement range."""
import itertools

from mc import feval, wb as W
from mc.runner import Acc, jsonable

ID = 'C18'
LEVEL = 'model_checking'
RULE = ('a 10-digit base-b two\'s-complement odometer is the model. Binary: every n in -512..511 (and the out-of-range '
        'neighbours); octal / hex: every n in windows of 4096 around 0 and both range ends plus the complete structured set '
        '+-(d1*b^i + d2*b^j); DEC2X(n) equals the odometer string, X2DEC(DEC2X(n)) == n, negatives have exactly 10 digits, '
        'places 1..10 pad or give #NUM!, out of range -> #NUM!; every digit string of length <= 4 (5 thorough) over each '
        'alphabet plus one illegal character, the length 9/10/11 boundary strings, lower case, and whitespace / sign / '
        'underscore decorations -> model value or #NUM!/#VALUE!, never an exception; all six direct base-to-base '
        'functions equal the composition through decimal, with and without places. distinct_nontrivial = inputs that '
        'are negative, at a range end, padded, over-long or illegal.  Off the grid: 20 places values outside 1..10 / fractional / '
        'text / blank / error / boolean, fractional numbers at the range ends, X2DEC of fractional, negative and over-long numbers: '
        'an error value or the digits of an adjacent integer padded to at most 10 digits, never an exception.')
ASSUMPTIONS = ['for negative n with explicit places only "10 digits or #NUM!" is required (the statement does not say which)',
               'the empty string is not judged']
GROUP = ('fn', 'verdict')

BASES = {2: ('BIN', '01'), 8: ('OCT', '01234567'), 16: ('HEX', '0123456789ABCDEF')}
HALF = {2: 512, 8: 2 ** 29, 16: 2 ** 39}


def to_base(n, b):
    digits = BASES[b][1]
    if n == 0:
        return '0'
    s = ''
    while n:
        n, r = divmod(n, b)
        s = digits[r] + s
    return s


def model_dec2x(n, b):
    if not (-HALF[b] <= n < HALF[b]):
        return '#NUM!'
    return to_base(n if n >= 0 else n + 2 * HALF[b], b)


def model_x2dec(s, b):
    """s: digit string (any case); returns value or '#NUM!'"""
    if len(s) > 10 or len(s) == 0:
        return '#NUM!'
    digits = BASES[b][1]
    v = 0
    for ch in s.upper():
        if ch not in digits:
            return '#NUM!'
        v = v * b + digits.index(ch)
    if len(s) == 10 and v >= HALF[b]:
        v -= 2 * HALF[b]
    if len(s) < 10 and v >= HALF[b] * 2:
        return '#NUM!'
    return v


def numbers_for(b, thorough):
    h = HALF[b]
    if b == 2:
        return list(range(-520, 520))
    w = 4096 if thorough else 600
    ns = set(range(-w, w)) | set(range(-h - 8, -h + w)) | set(range(h - w, h + 8))
    ds = range(b) if thorough or b == 8 else (0, 1, 7, 8, 15)
    for i in range(10):
        for j in range(i + 1):
            for d1 in ds:
                for d2 in ds:
                    v = d1 * b ** i + d2 * b ** j
                    ns.add(v)
                    ns.add(-v)
    return sorted(ns)


def work_numbers(job):
    b, k, m, thorough = job
    name = BASES[b][0]
    acc = Acc()
    ev = feval.Evaluator()
    for i, n in enumerate(numbers_for(b, thorough)):
        if i % m != k:
            continue
        env = {'A1': n}
        acc.add('states')
        exp = model_dec2x(n, b)
        if n < 0 or exp == '#NUM!' or abs(n) >= HALF[b] - 2:
            acc.add('distinct_nontrivial')
        o = ev.run(f'=DEC2{name}(A1)', env)
        acc.add('evaluations')
        case = dict(kind='number', fn=f'DEC2{name}', n=n)
        if o[0] != 'ok':
            acc.violation(dict(case, verdict='raised', exc=o[1]), f'=DEC2{name}({n}) raised {o[1]}: {o[2][-80:]}')
            continue
        if o[1] != exp:
            acc.violation(dict(case, verdict='wrong-digits', observed=jsonable(o[1]), expected=exp),
                          f'=DEC2{name}({n}) = {o[1]!r}, the odometer shows {exp!r}')
            continue
        if exp == '#NUM!':
            continue
        if n < 0 and len(o[1]) != 10:
            acc.violation(dict(case, verdict='negative-not-10-digits', observed=o[1]), f'=DEC2{name}({n}) = {o[1]!r} is not 10 digits')
        env['B1'] = o[1]
        back = ev.run(f'={name}2DEC(B1)', env)
        both = ev.run(f'={name}2DEC(DEC2{name}(A1))', env)
        acc.add('evaluations', 2)
        for r in (back, both):
            if r[0] != 'ok' or r[1] != n:
                acc.violation(dict(kind='number', fn=f'{name}2DEC', verdict='not-inverse', n=n, digits=o[1], observed=jsonable(r[:2])),
                              f'={name}2DEC({o[1]!r}) = {r[:2]!r}, expected {n}')
                break
        # places (a sparse set of n for the large bases keeps this linear)
        if b == 2 or i % 7 == 0 or abs(n) < 70:
            for p in range(1, 11):
                env['C1'] = p
                r = ev.run(f'=DEC2{name}(A1,C1)', env)
                acc.add('evaluations')
                pc = dict(kind='number', fn=f'DEC2{name}', n=n, places=p)
                if r[0] != 'ok':
                    acc.violation(dict(pc, verdict='raised', exc=r[1]), f'=DEC2{name}({n},{p}) raised {r[1]}')
                elif n >= 0:
                    want = exp.zfill(p) if len(exp) <= p else '#NUM!'
                    if r[1] != want:
                        acc.violation(dict(pc, verdict='wrong-padding', observed=jsonable(r[1]), expected=want),
                                      f'=DEC2{name}({n},{p}) = {r[1]!r}, expected {want!r}')
                elif r[1] not in (exp, '#NUM!'):
                    acc.violation(dict(pc, verdict='wrong-padding', observed=jsonable(r[1]), expected=exp),
                                  f'=DEC2{name}({n},{p}) = {r[1]!r}, expected the 10 digits {exp!r} or #NUM!')
            # direct conversions equal the composition through decimal
            for b2 in BASES:
                if b2 == b:
                    continue
                n2 = BASES[b2][0]
                for places in (None, 3, 10):
                    pl = '' if places is None else f',{places}'
                    d = ev.run(f'={name}2{n2}(B1{pl})', env)
                    c = ev.run(f'=DEC2{n2}({name}2DEC(B1){pl})', env)
                    acc.add('evaluations', 2)
                    if d[:2] != c[:2]:
                        acc.violation(dict(kind='number', fn=f'{name}2{n2}', verdict='differs-from-composition', n=n, digits=o[1],
                                           places=places, observed=jsonable(d[:2]), expected=jsonable(c[:2])),
                                      f'={name}2{n2}({o[1]!r}{pl}) = {d[:2]!r} but DEC2{n2}({name}2DEC(..){pl}) = {c[:2]!r}')
                    want = model_dec2x(n, b2)
                    if places is None and d[0] == 'ok' and d[1] != want:
                        acc.violation(dict(kind='number', fn=f'{name}2{n2}', verdict='wrong-digits', n=n, digits=o[1],
                                           observed=jsonable(d[1]), expected=want),
                                      f'={name}2{n2}({o[1]!r}) = {d[1]!r}, the odometer shows {want!r}')
    acc.counts['transitions'] = acc.counts.get('evaluations', 0)
    return acc.result()


def work_strings(job):
    b, k, m, maxlen = job
    name, alpha = BASES[b]
    acc = Acc()
    ev = feval.Evaluator()
    illegal = {2: '2', 8: '8', 16: 'G'}[b]
    chars = list(alpha if b != 16 else '019AF') + [illegal]
    strings = []
    for L in range(1, maxlen + 1):
        strings += [''.join(p) for p in itertools.product(chars, repeat=L)]
    top = alpha[-1]
    half_digit = alpha[len(alpha) // 2]         # first digit with the sign bit set
    for L in (9, 10, 11, 12):
        for first in (alpha[0], alpha[1], alpha[len(alpha) // 2 - 1], half_digit, top, illegal):
            for rest in (alpha[0], alpha[1], top):
                strings.append(first + rest * (L - 1))
                strings.append(first + alpha[0] * (L - 2) + rest)
    strings += [s.lower() for s in ('FF', 'AbC', 'fffffffffe', '1f')] if b == 16 else []
    deco = [' 1', '1 ', '+1', '-1', '1_1', '0b1', '0x1', '0o1', '1.0', '1e1', '\t1', '1\n']
    for i, s in enumerate(strings + deco):
        if i % m != k:
            continue
        env = {'A1': s}
        acc.add('states')
        exp = model_x2dec(s, b)
        if exp == '#NUM!' or len(s) >= 10 or s != s.lstrip('0'):
            acc.add('distinct_nontrivial')
        forms = [('text', env)]
        if s.isdigit() and s == str(int(s)) and len(s) <= 10:
            forms.append(('number', {'A1': int(s)}))
        for form, e in forms:
            o = ev.run(f'={name}2DEC(A1)', e)
            acc.add('evaluations')
            case = dict(kind='string', fn=f'{name}2DEC', s=s, form=form, decorated=s in deco)
            if o[0] != 'ok':
                acc.violation(dict(case, verdict='raised', exc=o[1]), f'={name}2DEC({s!r}) raised {o[1]}: {o[2][-80:]}')
            elif exp == '#NUM!':
                if o[1] not in ('#NUM!', '#VALUE!'):
                    acc.violation(dict(case, verdict='accepted-illegal', observed=jsonable(o[1])),
                                  f'={name}2DEC({s!r}) = {o[1]!r}; the string is outside the 10-digit base-{b} alphabet/range, expected #NUM!/#VALUE!')
            elif o[1] != exp:
                acc.violation(dict(case, verdict='wrong-value', observed=jsonable(o[1]), expected=exp),
                              f'={name}2DEC({s!r}) = {o[1]!r}, the odometer gives {exp!r}')
            for b2 in BASES:
                if b2 == b:
                    continue
                n2 = BASES[b2][0]
                d = ev.run(f'={name}2{n2}(A1)', e)
                c = ev.run(f'=DEC2{n2}({name}2DEC(A1))', e)
                acc.add('evaluations', 2)
                if d[0] != 'ok':
                    acc.violation(dict(kind='string', fn=f'{name}2{n2}', verdict='raised', s=s, form=form, exc=d[1]),
                                  f'={name}2{n2}({s!r}) raised {d[1]}')
                elif d[:2] != c[:2]:
                    acc.violation(dict(kind='string', fn=f'{name}2{n2}', verdict='differs-from-composition', s=s, form=form,
                                       observed=jsonable(d[:2]), expected=jsonable(c[:2])),
                                  f'={name}2{n2}({s!r}) = {d[:2]!r} but the composition through decimal gives {c[:2]!r}')
    acc.counts['transitions'] = acc.counts.get('evaluations', 0)
    return acc.result()


ERRS = ('#NUM!', '#VALUE!', '#N/A', '#DIV/0!', '#REF!', '#NAME?', '#NULL!')
ODD_PLACES = [0, -1, 11, 12, 100, 10 ** 6, 2.9, 10.5, 0.5, '4', '10', '11', 'abc', '', ' ', '#N/A', '#DIV/0!', None, True, False,
              '1_0', '0x4', '1e1', 'inf', 'nan']
ODD_NUMBERS = ['1_0', '1__0', '_5', '5_', 'inf', 'nan', '0x5', '1e1', '5.0', ' 5', '+5', '--5']


def work_oddargs(job):
    """arguments off the main grid: places outside 1..10 (zero, negative, > 10, fractional, numeric text, text, blank,
    error values, booleans), fractional and text numbers.  Nothing raises; the result is an error value or the
    odometer string of an adjacent integer, padded to at most 10 digits."""
    b, = job
    name = BASES[b][0]
    h = HALF[b]
    acc = Acc()
    ev = feval.Evaluator()
    ns = [0, 1, 5, b - 1, b, h - 1, -1, -h]
    for n in ns:
        exp = model_dec2x(n, b)
        for pl in ODD_PLACES:
            env = {'A1': n, 'C1': pl}
            forms = [(f'=DEC2{name}(A1,C1)', n)]
            if n >= 0:
                env['B1'] = to_base(n, 2)
                if len(env['B1']) <= 10 and b != 2:
                    forms.append((f'=BIN2{name}(B1,C1)', n))
            for f, nn in forms:
                o = ev.run(f, env)
                acc.add('evaluations')
                acc.add('states')
                acc.add('distinct_nontrivial')
                case = dict(kind='odd', fn=f.split('(')[0][1:], n=n, places=jsonable(pl), ptype=type(pl).__name__)
                if o[0] != 'ok':
                    acc.violation(dict(case, verdict='raised', exc=o[1]), f'{f} with n={n} places={pl!r} raised {o[1]}: {o[2][-80:]}')
                    continue
                r = o[1]
                if isinstance(pl, str) and pl in ERRS:
                    ok = r in ERRS
                elif isinstance(pl, str):
                    try:
                        pv = int(pl) if pl.strip().isdigit() else int('x')
                    except ValueError:
                        ok = r in ERRS
                    else:
                        ok = r in ERRS or (len(exp) <= pv <= 10 and r == exp.zfill(pv))
                elif pl is None or isinstance(pl, bool):
                    ok = r in ERRS or (isinstance(r, str) and len(r) <= 10 and r.lstrip('0') == exp.lstrip('0'))
                else:
                    pv = int(pl)
                    if n < 0:
                        ok = r == '#NUM!' or (1 <= pv <= 10 and r == exp)
                    else:
                        ok = r == (exp.zfill(pv) if len(exp) <= pv <= 10 else '#NUM!')
                if not ok:
                    acc.violation(dict(case, verdict='wrong-places-handling', observed=jsonable(r)),
                                  f'{f} with n={n} places={pl!r} = {r!r}; expected an error value or {exp!r} padded to at most 10 digits')
    # a range / array constant where one value belongs (places, number), texts that only python reads as integers
    env = {'A1': 5, 'P1': 4, 'P2': 6}
    for f in (f'=DEC2{name}(A1,P1:P2)', f'=DEC2{name}(A1,{{4}})', f'=DEC2{name}(A1,{{4,6}})', f'=BIN2{name if b != 2 else "OCT"}("101",P1:P2)',
              f'=DEC2{name}(P1:P2)', f'=DEC2{name}(P1:P2,4)'):
        o = ev.run(f, env)
        acc.add('evaluations')
        acc.add('states')
        case = dict(kind='odd', fn=f.split('(')[0][1:], formula=f)
        if o[0] != 'ok':
            acc.violation(dict(case, verdict='raised', exc=o[1]), f'{f} (P1:P2 = 4, 6) raised {o[1]}: {o[2][-80:]}')
        elif not (o[1] in ERRS or (isinstance(o[1], str) and len(o[1]) <= 10)):
            acc.violation(dict(case, verdict='wrong-places-handling', observed=jsonable(o[1])), f'{f} = {o[1]!r}')
    for txt in ODD_NUMBERS:
        o = ev.run(f'=DEC2{name}(A1)', {'A1': txt})
        acc.add('evaluations')
        acc.add('states')
        case = dict(kind='odd', fn=f'DEC2{name}', x=txt)
        ok_vals = set(ERRS)
        if txt.strip().lstrip('+').replace('.0', '').isdigit():
            ok_vals.add(to_base(int(float(txt)), b))          # plain decimal spellings may be read as the number
        if o[0] != 'ok':
            acc.violation(dict(case, verdict='raised', exc=o[1]), f'=DEC2{name}({txt!r}) raised {o[1]}')
        elif o[1] not in ok_vals:
            acc.violation(dict(case, verdict='accepted-illegal', observed=jsonable(o[1])),
                          f'=DEC2{name}({txt!r}) = {o[1]!r}; the text is not a decimal number, expected an error value')
    # a blank cell as the number: the direct conversion equals the composition through decimal
    for b2 in BASES:
        if b2 == b:
            continue
        n2 = BASES[b2][0]
        for pl in (None, 4, 10, 0, 11, 'x', '#N/A'):
            pa = '' if pl is None else ',C1'
            d = ev.run(f'={name}2{n2}(A1{pa})', {'C1': pl})
            c = ev.run(f'=DEC2{n2}({name}2DEC(A1){pa})', {'C1': pl})
            acc.add('evaluations', 2)
            acc.add('states')
            if d[0] != 'ok' or d[:2] != c[:2]:
                acc.violation(dict(kind='odd', fn=f'{name}2{n2}', verdict='differs-from-composition', x=None, blank=True, places=jsonable(pl),
                                   observed=jsonable(d[:2]), expected=jsonable(c[:2])),
                              f'={name}2{n2}(<blank cell>{pa and ", " + repr(pl)}) = {d[:2]!r} but DEC2{n2}({name}2DEC(<blank cell>){pa and ", " + repr(pl)}) '
                              f'= {c[:2]!r}')
    d0, dz = ev.run(f'=DEC2{name}(A1)', {}), ev.run(f'=DEC2{name}(A1)', {'A1': 0})
    acc.add('evaluations', 2)
    if d0[:2] != dz[:2] and not (d0[0] == 'ok' and d0[1] in ERRS and False):
        acc.violation(dict(kind='odd', fn=f'DEC2{name}', verdict='blank-differs-from-zero', x=None, blank=True,
                           observed=jsonable(d0[:2]), expected=jsonable(dz[:2])),
                      f'=DEC2{name}(<blank cell>) = {d0[:2]!r} but DEC2{name}(0) = {dz[:2]!r} (and {name}2DEC(<blank>) is 0)')
    # fractional numbers: the digits of an adjacent integer (or #NUM! past the range), never an exception
    for n in [0, 1, 2, 5, h - 2, h - 1, -1, -2, -h + 1, -h, h, -h - 1]:
        for fr in (0.25, 0.5, 0.75):
            x = n + fr
            o = ev.run(f'=DEC2{name}(A1)', {'A1': x})
            acc.add('evaluations')
            acc.add('states')
            case = dict(kind='odd', fn=f'DEC2{name}', x=x)
            if o[0] != 'ok':
                acc.violation(dict(case, verdict='raised', exc=o[1]), f'=DEC2{name}({x}) raised {o[1]}')
            elif o[1] not in (model_dec2x(n, b), model_dec2x(n + 1, b)):
                acc.violation(dict(case, verdict='wrong-digits', observed=jsonable(o[1])),
                              f'=DEC2{name}({x}) = {o[1]!r}: neither the digits of {n} nor of {n + 1}')
    # X2DEC of numbers that are not digit strings: fractional, negative, too long
    for x in [1.5, 10.5, -1, -10, -1.5, 1e10, 1e11, 11111111111, 1e300, -1e300, 0.1]:
        o = ev.run(f'={name}2DEC(A1)', {'A1': x})
        acc.add('evaluations')
        acc.add('states')
        case = dict(kind='odd', fn=f'{name}2DEC', x=x)
        if o[0] != 'ok':
            acc.violation(dict(case, verdict='raised', exc=o[1]), f'={name}2DEC({x}) raised {o[1]}')
        elif o[1] not in ERRS:
            acc.violation(dict(case, verdict='accepted-illegal', observed=jsonable(o[1])),
                          f'={name}2DEC({x!r}) = {o[1]!r}; the number is not a string of at most 10 base-{b} digits')
    acc.counts['transitions'] = acc.counts.get('evaluations', 0)
    return acc.result()


def work_twin_order(job):
    """run in a brand-new interpreter: the numbers 0 / 1 and their logical twins FALSE / TRUE (== and hash-equal in python)
    converted one after the other, logicals first or numbers first -- the conversion of a number must not depend on what was
    converted before it"""
    order = job[0]
    acc = Acc()
    ev = feval.Evaluator()
    nums = [1, 0, 1.0, 0.0, '1', '0']
    logs = [True, False]
    seq = logs + nums + logs if order == 'logicals-first' else nums + logs + nums
    for b, (name, _) in BASES.items():
        others = [n for bb, (n, _) in BASES.items() if bb != b]
        forms = [f'=DEC2{name}(A1)', f'=DEC2{name}(A1,4)', f'={name}2DEC(A1)'] + [f'={name}2{o}(A1)' for o in others] + [f'={name}2{others[0]}(A1,3)']
        for f in forms:
            pad = 4 if ',4)' in f else 3 if ',3)' in f else 0
            for x in seq:
                o = ev.run(f, {'A1': x})
                acc.add('evaluations')
                acc.add('states')
                acc.add('distinct_nontrivial')
                case = dict(kind='twin', fn=f.split('(')[0][1:], formula=f, x=repr(x), order=order)
                if o[0] != 'ok':
                    acc.violation(dict(case, verdict='raised', exc=o[1]), f'{f} with A1={x!r} ({order}) raised {o[1]}')
                    continue
                if isinstance(x, bool):
                    if not (isinstance(o[1], str) or isinstance(o[1], (int, float))):
                        acc.violation(dict(case, verdict='wrong-type', observed=jsonable(o[1])), f'{f} with A1={x!r} = {o[1]!r}')
                    continue
                v = int(float(x))
                want = v if '2DEC' in f else str(v).zfill(pad) if pad else str(v)
                if not W.veq(o[1], want):
                    acc.violation(dict(case, verdict='wrong-value', observed=jsonable(o[1]), expected=want),
                                  f'{f} with A1={x!r} = {o[1]!r}, expected {want!r} (sequence {order}: {seq})')
    acc.counts['transitions'] = acc.counts.get('evaluations', 0)
    return acc.result()


def run(ctx):
    jobs = []
    for b in BASES:
        m = 16
        jobs += [(b, (k + ctx.seed) % m, m, ctx.thorough) for k in range(m)]
    ctx.pmap(work_numbers, jobs, timeout=6000)
    jobs = []
    for b in BASES:
        jobs += [(b, k, 8, 5 if ctx.thorough else 4) for k in range(8)]
    ctx.pmap(work_strings, jobs, timeout=6000)
    ctx.pmap(work_oddargs, [(b,) for b in BASES], timeout=600)
    ctx.fresh(work_twin_order, [('logicals-first',), ('numbers-first',)])
    ctx.sample(dict(n=-1, DEC2HEX='FFFFFFFFFF', HEX2DEC_back=-1))
    ctx.sample(dict(s='1000000000', BIN2DEC=-512))
    ctx.sample(dict(n=5, places=3, DEC2BIN='101', note='places 3 exactly fits'))
    ctx.counts['traces_validated_against_impl'] = ctx.counts.get('evaluations', 0)


def replay(case):
    ev = feval.Evaluator()
    if case['kind'] == 'twin':
        r = work_twin_order((case['order'],))
        hits = [m for c, m in r['violations'] if c.get('formula') == case.get('formula') and c.get('x') == case.get('x')]
        return bool(hits), '\n'.join(hits[:2]) or 'no violation (replayed in this process, not in a fresh one)'
    if case['kind'] == 'string':
        b = {'BIN': 2, 'OCT': 8, 'HEX': 16}[case['fn'][:3]]
        r = work_strings((b, 0, 1, 4))
        hits = [m for c, m in r['violations'] if c.get('s') == case['s'] and c.get('fn') == case['fn']]
        if not hits and len(case['s']) > 4:
            o = ev.run(f"={case['fn']}(A1)", {'A1': case['s']})
            return True, f"={case['fn']}({case['s']!r}) -> {o[:2]!r}"
        return bool(hits), '\n'.join(hits[:2]) or 'no violation'
    if case['kind'] == 'odd':
        for b in BASES:
            r = work_oddargs((b,))
            hits = [m for c, m in r['violations'] if all(c.get(k) == case.get(k) for k in ('fn', 'n', 'places', 'x', 'ptype'))]
            if hits:
                return True, hits[0]
        return False, 'no violation'
    name = case['fn'].replace('DEC2', '').replace('2DEC', '')[:3]
    b = {'BIN': 2, 'OCT': 8, 'HEX': 16}.get(name, 2)
    env = {'A1': case['n'], 'C1': case.get('places')}
    f = f"=DEC2{name}(A1" + (',C1)' if case.get('places') is not None and case['fn'].startswith('DEC2') else ')')
    o = ev.run(f, env)
    exp = model_dec2x(case['n'], b)
    return True, f"{f} with n={case['n']} places={case.get('places')} -> {o[:2]!r}; odometer {exp!r} (recorded verdict {case['verdict']})"
