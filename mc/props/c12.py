"""C12 -- validate_calcs reports exactly the stored results that disagree (every formula cell perturbed in turn)."""
import contextlib
import io
import itertools
import os
import shutil
import tempfile

from mc import family, plugins, wb as W
from mc.runner import Acc, jsonable

ID = 'C12'
LEVEL = 'fault_enumeration'
RULE = ('workbooks written as real .xlsx packages whose stored formula results are pycel\'s own from-scratch results; '
        '(a) unperturbed: validate_calcs == {} for every choice of checked outputs (all / each cell / pairs) and '
        'tolerance {None, 1e-6, 0.01, 0.5}; (b) every formula cell in turn with its stored result altered (number by '
        '2 x tol, 0.4 x tol, to 0; text changed; logical flipped; value <-> error) x tolerance x outputs: beyond tolerance '
        'and reachable from the outputs => reported under mismatch with stored and recomputed value and every other '
        'reported cell is a descendant (by the specification); inside tolerance or unreachable => {}; (c) a cell '
        'calling an unknown function / a raising plugin is reported under not-implemented / exceptions. '
        'distinct_nontrivial = distinct (workbook, perturbed cell, perturbation, tolerance, outputs) cases with an '
        'actual perturbation.')
ASSUMPTIONS = ['stored results are produced by pycel itself (from-scratch evaluation), so an unperturbed file is consistent by construction',
               'descendants / reachability from the specification text (mc/wb.py), not from pycel\'s graph',
               'for tolerance=None only perturbations far beyond the default 1e-5 relative tolerance are judged']
GROUP = ('verdict', 'pert', 'tol', 'outputs_kind')

TOLS = [None, 1e-6, 0.01, 0.5]


def extra_family():
    S = family.S
    fam = []

    def add(name, spec):
        fam.append(dict(name=name, spec=spec, ranges=[], unbounded=[], inputs=W.constant_cells(spec),
                        cells=W.all_cells(spec), tags=[]))
    add('bigvals', S({'A1': 2000000, 'B1': '=A1*2', 'C1': '=B1+0.5', 'D1': '=C1-A1'}))
    # results far below 1e-8: the default tolerance is relative, a stored 5e-9 altered to 9e-9 is a mismatch
    add('tiny', S({'A1': 2e-9, 'A2': 3e-9, 'B1': '=A1+A2', 'B2': '=B1*2', 'B3': '=B1*1000000000', 'B4': '=A1-A2'}))
    add('two_sheet_formulas', {'sheets': {'Report': {'A1': '=Data!B1+1', 'A2': '=SUM(Data!A1:B2)', 'A3': '=A1&"|"'},
                                          'Data': {'A1': 10, 'B1': '=A1*2', 'A2': 3, 'B2': '=A2+B1'}}, 'active': 'Report'})
    return fam


def perturbations(value, tol):
    """yield (name, new_stored, beyond) for one stored value"""
    k = W.kind(value)
    t = tol if tol is not None else None
    if k == 'number':
        if t is None:
            yield 'num*1.01+1', value * 1.01 + 1, True
            if value != 0:
                yield 'num*1.8', value * 1.8, True        # 80 % off at the value's own magnitude, whatever that is
        else:
            yield 'num+2tol', value + 2 * t, True
            yield 'num-2tol', value - 2 * t, True
            yield 'num+0.4tol', value + 0.4 * t, False
        if value != 0 and (abs(value) > 1e-6 if t is None else abs(value) > 2 * t):      # (the default rule has an absolute floor of 1e-8 next to zero)
            yield 'num->0', 0, True
        yield 'num->text', 'oops', True
        yield 'num->error', '#N/A', True
    elif k == 'text':
        yield 'text-changed', value + 'x', True
        yield 'text->num', 7, True
        if value != '':
            yield 'text->empty', '', True
    elif k == 'bool':
        yield 'bool-flipped', (not value), True
    elif k == 'error':
        yield 'error->num', 1, True
        other = '#N/A' if value != '#N/A' else '#REF!'
        yield 'error-changed', other, True


def validate(path, outputs, tol, plugins_=None, sheet=None):
    from pycel.excelcompiler import ExcelCompiler
    buf = io.StringIO()
    with contextlib.redirect_stdout(buf):
        m = ExcelCompiler(filename=path, plugins=plugins_)
        if sheet is not None:
            rep = m.validate_calcs(sheet=sheet, tolerance=tol)
        elif plugins_ is not None:
            # the sub-checks on cells that cannot be evaluated: validate_calcs itself must not raise
            try:
                rep = m.validate_calcs(output_addrs=outputs, tolerance=tol)
            except Exception as exc:
                rep = ('raised', type(exc).__name__, str(exc)[:120])
        else:
            rep = m.validate_calcs(output_addrs=outputs, tolerance=tol)
    return rep


def _outs(outs):
    return (outs,)


def ancestors_incl(deps, outs):
    seen, todo = set(outs), list(outs)
    while todo:
        x = todo.pop()
        for p in deps.get(x, ()):
            if p not in seen:
                seen.add(p)
                todo.append(p)
    return seen


def work(job):
    fam, tols = job
    acc = Acc()
    tmp = tempfile.mkdtemp(prefix='c12_')
    spec = fam['spec']
    deps = W.spec_deps(spec)
    base = dict(kind='validate', wb=fam['name'],
                fam={k: fam[k] for k in ('name', 'spec', 'ranges', 'unbounded', 'inputs', 'cells')})
    try:
        clean = {a: v[1] for a, v in W.scratch_values(spec).items() if v[0] == 'ok'}
        fcells = [a for a in W.formula_cells(spec)]
        arr_cells = [a for a in fam['cells'] if a not in W.constant_cells(spec) and a not in fcells]
        allf = fcells + arr_cells
        out_choices = [None] + [[a] for a in allf] + [list(p) for p in itertools.combinations(allf[:4], 2)]
        if len(spec['sheets']) > 1:
            # validate_calcs(sheet=...): the formulas of one sheet are the outputs
            for sh in spec['sheets']:
                on = [a for a in allf if W.split_addr(a)[0] == sh]
                if on:
                    out_choices.append(('sheet', sh, on))
        path = os.path.join(tmp, 'clean.xlsx')
        W.write_xlsx(spec, path, clean)
        # (a) unperturbed
        for outs in out_choices:
            for tol in tols:
                acc.add('evaluations')
                acc.add('states')
                try:
                    rep = validate(path, *_outs(outs), tol) if not isinstance(outs, tuple) else validate(path, None, tol, sheet=outs[1])
                except Exception as exc:
                    acc.violation(dict(base, verdict='raised', pert=None, tol=tol, outputs=outs,
                                       outputs_kind='all' if outs is None else len(outs), exc=type(exc).__name__),
                                  f"{fam['name']}: validate_calcs(outputs={outs}, tolerance={tol}) raised {type(exc).__name__}: {str(exc)[:160]}")
                    continue
                if rep != {}:
                    acc.violation(dict(base, verdict='clean-file-reported', pert=None, tol=tol, outputs=outs,
                                       outputs_kind='all' if outs is None else len(outs), report=jsonable(rep)),
                                  f"{fam['name']}: consistent file, outputs={outs}, tolerance={tol}: report {str(rep)[:200]}")
        # (b) perturbed
        ppath = os.path.join(tmp, 'pert.xlsx')
        for P in allf:
            if P not in clean:
                continue
            desc = W.descendants(deps, P)
            for tol in tols:
                for pname, newv, beyond in perturbations(clean[P], tol):
                    stored = dict(clean)
                    stored[P] = newv
                    W.write_xlsx(spec, ppath, stored)
                    for outs in out_choices:
                        olist = outs[2] if isinstance(outs, tuple) else outs
                        reach = P in (ancestors_incl(deps, olist) if olist is not None else set(allf))
                        acc.add('evaluations')
                        acc.add('distinct_nontrivial')
                        acc.add('transitions')
                        case = dict(base, cell=P, pert=pname, newv=newv, tol=tol, outputs=outs,
                                    outputs_kind='all' if outs is None else len(outs), beyond=beyond, reach=reach)
                        try:
                            rep = validate(ppath, outs, tol) if not isinstance(outs, tuple) else validate(ppath, None, tol, sheet=outs[1])
                        except Exception as exc:
                            acc.violation(dict(case, verdict='raised', exc=type(exc).__name__),
                                          f"{fam['name']}: {P} stored {newv!r}: validate_calcs raised {type(exc).__name__}: {str(exc)[:160]}")
                            continue
                        msg = judge(rep, P, newv, clean[P], desc, beyond and reach, reach)
                        if msg:
                            acc.violation(dict(case, verdict=msg[0], report=jsonable(rep)),
                                          f"{fam['name']}: stored result of {P} altered {clean[P]!r} -> {newv!r} ({pname}), "
                                          f"tolerance={tol}, outputs={outs}: {msg[1]}")
        acc.sample(dict(workbook=fam['name'], cells=spec['sheets'], stored=jsonable(clean), tolerances=[repr(t) for t in tols],
                        output_choices=len(out_choices)))
    finally:
        shutil.rmtree(tmp, ignore_errors=True)
    return acc.result()


def judge(rep, P, newv, truev, desc, must_report, reach=True):
    mm = rep.get('mismatch', {})
    others = {k: v for k, v in rep.items() if k != 'mismatch'}
    if others:
        return ('unexpected-section', f'report has {list(others)}: {str(others)[:160]}')
    if not must_report:
        if not reach:
            # not reachable by the specification: pycel may still visit it (members of one array formula are visited
            # together); reporting the cell that really disagrees is fine, anything unrelated is not
            bad = [k for k in mm if k != P and k not in desc]
            if bad:
                return ('non-descendant-reported', f'{bad} reported but not dependent on {P}')
            if P in mm and not (W.veq(mm[P].original, newv) or W.kind(newv) == 'number' and W.vclose(mm[P].original, newv)):
                return ('wrong-original', f'reported original {mm[P].original!r}, stored was {newv!r}')
            return None
        # inside the tolerance: the statement only requires that nothing unrelated is reported (a descendant may
        # legitimately amplify the difference, e.g. through a text conversion)
        if P in mm:
            return ('reported-inside-tolerance', f'{P} reported although altered by less than the tolerance: {mm[P]}')
        bad = [k for k in mm if k not in desc]
        if bad:
            return ('non-descendant-reported', f'{bad} reported but not dependent on {P}')
        return None
    if P not in mm:
        return ('not-reported', f'the altered cell is missing from the mismatch report {sorted(mm)}')
    m = mm[P]
    if not W.veq(m.original, newv) and not (W.kind(newv) == 'number' and W.vclose(m.original, newv)):
        return ('wrong-original', f'reported original {m.original!r}, stored was {newv!r}')
    if not W.vclose(m.calced, truev, rel=1e-9, abs_=1e-12):
        return ('wrong-calced', f'reported recomputed value {m.calced!r}, true value {truev!r}')
    bad = [k for k in mm if k not in desc]
    if bad:
        return ('non-descendant-reported', f'{bad} reported but not dependent on {P}')
    return None


def work_unevaluable(job):
    kind, = job
    acc = Acc()
    tmp = tempfile.mkdtemp(prefix='c12u_')
    try:
        f = {'unknown': '=NOSUCHFN(A1)', 'raises': '=VBOOM(1,A1)', 'unparseable': '=#REF!A1'}[kind]
        spec = family.S({'A1': 1, 'B1': f, 'C1': '=A1+1', 'D1': '=B1+C1'})
        stored = {'S!B1': 1, 'S!C1': 2, 'S!D1': 3}
        path = os.path.join(tmp, 'u.xlsx')
        W.write_xlsx(spec, path, stored)
        for outs in (None, ['S!D1'], ['S!B1'], ['S!C1']):
            plugins.reset({1: 'always'})
            acc.add('evaluations')
            acc.add('states')
            acc.add('transitions')
            acc.add('distinct_nontrivial')
            rep = validate(path, outs, None, plugins_='mc.plugins')
            section = 'not-implemented' if kind == 'unknown' else 'exceptions'
            if isinstance(rep, tuple):
                acc.violation(dict(kind='unevaluable', fault=kind, outputs=outs, verdict='validate-raised', pert=kind, tol=None,
                                   outputs_kind='all' if outs is None else 1, exc=rep[1]),
                              f'validate_calcs(outputs={outs}) raised {rep[1]}: {rep[2]} on a workbook holding B1 {f}: the whole report is lost')
                continue
            listed = [str(e[0]) for v in rep.get(section, {}).values() for e in v]
            reach = outs is None or outs != ['S!C1']
            case = dict(kind='unevaluable', fault=kind, outputs=outs, verdict=None, pert=kind, tol=None,
                        outputs_kind='all' if outs is None else 1)
            if reach and 'S!B1' not in listed:
                acc.violation(dict(case, verdict='silently-skipped', report=jsonable(rep)),
                              f'cell B1 {f} cannot be evaluated but is not reported under {section}: outputs={outs} report={str(rep)[:240]}')
            if not reach and rep != {}:
                acc.violation(dict(case, verdict='reported-without-cause', report=jsonable(rep)),
                              f'outputs={outs} do not reach the failing cell, report={str(rep)[:200]}')
            if 'S!C1' in rep.get('mismatch', {}):
                acc.violation(dict(case, verdict='non-descendant-reported', report=jsonable(rep)),
                              f'C1 reported as mismatch although it is consistent and independent: {str(rep)[:200]}')
        # an altered formula cell that the outputs reach only THROUGH the cell that cannot be evaluated
        g = {'unknown': '=NOSUCHFN(B1)', 'raises': '=VBOOM(1,B1)', 'unparseable': '=#REF!B1'}[kind]
        for depth, spec2, stored2 in (
                (1, family.S({'A1': 1, 'B1': '=A1*2', 'C1': g, 'D1': '=C1+1'}), {'S!B1': 3, 'S!C1': 5, 'S!D1': 6}),
                (2, family.S({'A1': 1, 'A2': '=A1+1', 'B1': '=A2*2', 'C1': g, 'D1': '=C1+1'}),
                 {'S!A2': 7, 'S!B1': 4, 'S!C1': 5, 'S!D1': 6})):
            altered = 'S!B1' if depth == 1 else 'S!A2'
            path2 = os.path.join(tmp, f'v{depth}.xlsx')
            W.write_xlsx(spec2, path2, stored2)
            for outs in (['S!D1'], ['S!C1'], None):
                plugins.reset({1: 'always'})
                acc.add('evaluations')
                acc.add('states')
                acc.add('transitions')
                acc.add('distinct_nontrivial')
                rep = validate(path2, outs, None, plugins_='mc.plugins')
                case = dict(kind='unevaluable', fault=kind, outputs=outs, verdict=None, pert=kind, tol=None, behind=depth,
                            outputs_kind='all' if outs is None else 1)
                if isinstance(rep, tuple):
                    acc.violation(dict(kind='unevaluable', fault=kind, outputs=outs, verdict='validate-raised', pert=kind, tol=None, behind=depth,
                                       outputs_kind='all' if outs is None else 1, exc=rep[1]),
                                  f'validate_calcs(outputs={outs}) raised {rep[1]}: {rep[2]} on a workbook holding C1 {g}')
                    continue
                if kind == 'unparseable' and outs is not None:
                    continue        # a formula that cannot be parsed has no known precedents: B1 is not reachable through it
                if altered not in rep.get('mismatch', {}):
                    acc.violation(dict(case, verdict='altered-cell-behind-unevaluable-not-named', report=jsonable(rep)),
                                  f'{altered} holds an altered stored result and is reachable from outputs={outs} through C1 {g} '
                                  f'(which cannot be evaluated) but is not named as a mismatch: report={str(rep)[:240]}')
    finally:
        shutil.rmtree(tmp, ignore_errors=True)
    return acc.result()


def run(ctx):
    fams = [f for f in family.curated() if f['name'] not in ('blank',)] + extra_family()
    tols = TOLS if ctx.thorough else [None, 0.01]
    if not ctx.thorough:
        keep = ('chain', 'diamond', 'fan_range', 'nested', 'two_sheets', 'names', 'cse', 'types', 'if', 'errformula',
                'mixed_range', 'bigvals', 'range_of_formulas', 'zero_results', 'unbounded', 'lookup', 'sheet_range_name', 'unbounded_formulas', 'single_row_unbounded', 'cse2', 'two_sheet_formulas', 'tiny')
        fams = [f for f in fams if f['name'] in keep]
    k = ctx.seed % len(fams)
    jobs = [(f, tols) for f in fams[k:] + fams[:k]]
    if ctx.thorough:
        # an evenly spread quarter of the five-cell workbooks of the enumerated family (all template assignments)
        enum = family.enumerated(limit=240)
        jobs += [(f, [None]) for f in enum]
        ctx.extra['enumerated_workbooks'] = len(enum)
    ctx.pmap(work, jobs, timeout=3000)
    ctx.pmap(work_unevaluable, [('unknown',), ('raises',), ('unparseable',)], timeout=600)
    ctx.counts['traces_validated_against_impl'] = ctx.counts.get('evaluations', 0)
    ctx.extra['tolerances'] = [repr(t) for t in tols]
    ctx.extra['workbooks'] = [f['name'] for f in fams]


def replay(case):
    if case['kind'] == 'unevaluable':
        r = work_unevaluable((case['fault'],))
        hits = [m for c, m in r['violations']]
        return bool(hits), '\n'.join(hits[:3]) or 'no violation'
    fam = case['fam']
    tmp = tempfile.mkdtemp(prefix='c12r_')
    try:
        spec = fam['spec']
        clean = {a: v[1] for a, v in W.scratch_values(spec).items() if v[0] == 'ok'}
        stored = dict(clean)
        if case.get('cell'):
            stored[case['cell']] = case['newv']
        path = os.path.join(tmp, 'r.xlsx')
        W.write_xlsx(spec, path, stored)
        o = case['outputs']
        rep = validate(path, o, case['tol']) if not (isinstance(o, list) and o and o[0] == 'sheet') else validate(path, None, case['tol'], sheet=o[1])
        txt = (f"workbook {fam['name']} {spec['sheets']}\n stored results {stored}\n validate_calcs(outputs={case['outputs']}, "
               f"tolerance={case['tol']}) -> {rep}")
        if case.get('cell'):
            deps = W.spec_deps(spec)
            msg = judge(rep, case['cell'], case['newv'], clean[case['cell']], W.descendants(deps, case['cell']),
                        case['beyond'] and case['reach'], case['reach'])
        else:
            msg = ('clean-file-reported', '') if rep != {} else None
        return bool(msg), txt + f'\n verdict: {msg or "as specified"}'
    finally:
        shutil.rmtree(tmp, ignore_errors=True)
