"""C07 -- evaluations on different threads are isolated (preemption-bounded exhaustive schedules)."""
import contextlib
import itertools
import os
import shutil
import tempfile
import threading

from mc import plugins, sched, wb as W
from mc.runner import Acc, jsonable

ID = 'C07'
LEVEL = 'model_checking'
RULE = ('(two threads loading workbook FILES with date cells, every schedule with <= 2 preemptions at the source lines of the openpyxl wrapper, appended at the end) all ordered pairs of workloads {iterative (3,1e-9), iterative (50,0.1), array 2x2, array 3x1, plain chain, '
        'set_value+evaluate, trim_graph, from_file of a cycles model, a failed iterative evaluation followed by a healthy one} on two real threads (each building its own '
        'compiler on that thread) x {never-used threads, warmed-up threads, threads started in a copied contextvars context} x every schedule with <= 2 preemptions at '
        'cell-evaluation points (entry of _evaluate/_evaluate_range; thorough: also every method of the two thread-local '
        'singletons, and <= 3 preemptions at the coarse points). Each thread\'s results and pass log must equal those of '
        'the workload run alone. distinct_nontrivial = schedules with at least one effective preemption.')
ASSUMPTIONS = ['cooperative baton scheduler: preemption only at the stated points (finer races are not covered)',
               'reference = the same workload run alone, sequentially, on the (warmed) main thread of the worker']
GROUP = ('pair', 'warm', 'npre', 'thread')


def S(cells, **kw):
    d = {'sheets': {'S': cells}, 'active': 'S'}
    d.update(kw)
    return d


def tagged(v):
    return repr(W.tag(v))


def log_for(ids):
    return [(i, repr(v)) for i, v in list(plugins.LOG) if i in ids]


def w_iter(base, count, delta):
    def fn():
        i1, i2 = base + 1, base + 2
        spec = S({'B1': 1, 'B2': 10, 'A1': f'=VTICK({i1},0.5*A2+B1)', 'A2': f'=VTICK({i2},0.25*A1+B2)'},
                 calc={'iterate': True, 'count': count, 'delta': delta})
        m = W.compile_inmem(spec, cycles=True, plugins='mc.plugins')
        r = [tagged(m.evaluate('S!A1')), tagged(m.evaluate('S!A2'))]
        return r + log_for({i1, i2})
    return fn


def w_failiter(base):
    """an iterative evaluation that fails half way (unknown function), handled by the caller, followed on the same
    thread by a healthy iterative workload; its reference is the healthy workload alone"""
    healthy = w_iter(base, 3, 1e-9)

    def fn():
        bad = S({'B1': 1, 'A1': '=0.5*A2+B1', 'A2': '=NOSUCHFN(A1)+1'}, calc={'iterate': True, 'count': 5, 'delta': 1e-9})
        m = W.compile_inmem(bad, cycles=True)
        try:
            m.evaluate('S!A1')
        except Exception:
            pass
        return healthy()
    return fn


def w_arr22(base):
    def fn():
        spec = S({'A1': 1, 'A2': 2, 'D1:E2': {'array': '=A1:A2*2'}, 'F1': '=SUM(D1:E2)', 'G1': '=E2+1'})
        m = W.compile_inmem(spec)
        return [tagged(m.evaluate('S!D1:E2')), tagged(m.evaluate('S!G1')), tagged(m.evaluate('S!F1'))]
    return fn


def w_arr31(base):
    def fn():
        # K1:M1 holds a zero: the IFERROR array formula is context sensitive (element-wise only inside an array
        # formula) and its operands are evaluated -- scheduling points -- after the array context was entered
        spec = S({'A1': 1, 'B1': 2, 'C1': 3, 'D1:D3': {'array': '=A1:C1+1'}, 'E1': '=SUM(D1:D3)',
                  'F1:H2': {'array': '=A1:B1&"x"'}, 'K1': 1, 'L1': 0, 'M1': 3,
                  'F4:H4': {'array': '=IFERROR(A1:C1/K1:M1,-1)'}})
        m = W.compile_inmem(spec)
        return [tagged(m.evaluate('S!E1')), tagged(m.evaluate('S!D1:D3')), tagged(m.evaluate('S!F1:H2')),
                tagged(m.evaluate('S!F4:H4'))]
    return fn


def w_plain(base):
    def fn():
        # F1: an ordinary cell whose IFERROR sees an array operand -- outside an array formula it is not element-wise,
        # so the #DIV/0! element survives into SUM
        m = W.compile_inmem(S({'A1': 1, 'B1': '=A1+1', 'C1': '=B1*2', 'D1': '=C1&""', 'E1': '=SUM(A1:C1)',
                               'K1': 1, 'L1': 0, 'M1': 3, 'F1': '=SUM(IFERROR(A1:C1/K1:M1,0))'}))
        return [tagged(m.evaluate('S!D1')), tagged(m.evaluate('S!E1')), tagged(m.evaluate('S!F1'))]
    return fn


def w_set(base):
    def fn():
        m = W.compile_inmem(S({'A1': 1, 'A2': 2, 'A3': 3, 'B1': '=SUM(A1:A3)', 'C1': '=B1+A2'}))
        r = [tagged(m.evaluate('S!C1'))]
        m.set_value('S!A2', 7)
        r += [tagged(m.evaluate('S!C1')), tagged(m.evaluate('S!B1'))]
        return r
    return fn


def w_trim(base):
    def fn():
        m = W.compile_inmem(S({'A1': 2, 'B1': '=A1+1', 'C1': '=A1*3', 'D1': '=B1+C1', 'E1': 4, 'F1': '=D1+E1'}))
        m.trim_graph(['S!A1'], ['S!F1'])
        m.set_value('S!A1', 5)
        return [tagged(m.evaluate('S!F1'))]
    return fn


def w_load(base, path):
    def fn():
        from pycel.excelcompiler import ExcelCompiler
        m = ExcelCompiler.from_file(path)
        r = [tagged(round(m.evaluate('S!A1'), 6))]
        m.set_value('S!B1', 3)
        r.append(tagged(round(m.evaluate('S!A1'), 6)))
        return r
    return fn


def warm_up():
    m = W.compile_inmem(S({'B1': 1, 'A1': '=0.5*A1+B1'}, calc={'iterate': True, 'count': 7, 'delta': 0.3}), cycles=True)
    m.evaluate('S!A1')
    m = W.compile_inmem(S({'A1': 1, 'B1': 2, 'D1:E1': {'array': '=A1:B1*3'}}))
    m.evaluate('S!D1:E1')


WORKLOADS = ['iterA', 'iterB', 'arr22', 'arr31', 'plain', 'set', 'trim', 'load', 'failiter']
REF_OF = {'failiter': 'iterA'}


def make(name, base, path):
    return {'iterA': lambda: w_iter(base, 3, 1e-9), 'iterB': lambda: w_iter(base, 50, 0.1),
            'arr22': lambda: w_arr22(base), 'arr31': lambda: w_arr31(base), 'plain': lambda: w_plain(base),
            'set': lambda: w_set(base), 'trim': lambda: w_trim(base), 'load': lambda: w_load(base, path),
            'failiter': lambda: w_failiter(base)}[name]()


COARSE = [('pycel.excelcompiler', 'ExcelCompiler', ['_evaluate', '_evaluate_range'])]
FINE = COARSE + [
    ('pycel.excelutil', '_IterativeEvalTracker', ['__call__', 'wip', 'calced', 'is_calced', 'inc_iteration_number']),
    ('pycel.excelutil', '_ArrayFormulaContext', ['__call__', '__enter__', '__exit__', 'fit_to_range']),
]


# line granularity: every source line of the code that owns or consults the two per-thread singletons is a
# scheduling point (sys.settrace 'line' events in the two worker threads)
LINE_SCOPES = ('_IterativeEvalTracker.', '_ArrayFormulaContext.', '_CycleCell.', '_CycleCellRange.', '_CellBase.',
               'ExcelCompiler._evaluate', 'ExcelCompiler.evaluate', 'ExcelFormula.build_eval_context.',
               'cse_array_wrapper.', 'iferror', 'ExcelCompiler.eval')


def line_tracer(holder):
    def local(frame, event, arg):
        if event == 'line':
            s = holder[0]
            if s is not None:
                s.point(f'{frame.f_code.co_name}:{frame.f_lineno}')
        return local

    def tracer(frame, event, arg):
        if event != 'call':
            return None
        code = frame.f_code
        if '/pycel/' not in code.co_filename:
            return None
        q = code.co_qualname
        if any(q.startswith(p) or ('.' + p) in q for p in LINE_SCOPES):
            return local
        return None
    return tracer


@contextlib.contextmanager
def patched(holder, points):
    import importlib
    saved = []
    for modname, clsname, names in points:
        cls = getattr(importlib.import_module(modname), clsname)
        for n in names:
            if n not in cls.__dict__:
                continue
            orig = cls.__dict__[n]

            def mk(orig, label):
                def wrapper(self, *a, **k):
                    s = holder[0]
                    if s is not None:
                        s.point(label)
                    return orig(self, *a, **k)
                wrapper.__name__ = getattr(orig, '__name__', label)
                return wrapper
            saved.append((cls, n, orig))
            setattr(cls, n, mk(orig, f'{clsname}.{n}'))
    try:
        yield
    finally:
        for cls, n, orig in saved:
            setattr(cls, n, orig)


def strip_ids(result, base):
    """make logs comparable between runs that used different id bases"""
    out = []
    for x in result:
        if isinstance(x, tuple) and len(x) == 2 and isinstance(x[0], int):
            out.append((x[0] - base, x[1]))
        else:
            out.append(x)
    return out


def reference(name, path):
    plugins.reset()
    r = make(REF_OF.get(name, name), 0, path)()
    return strip_ids(r, 0)


def work(job):
    n0, n1, warm, bound, fine, max_schedules = job
    acc = Acc()
    tmp = tempfile.mkdtemp(prefix='c07_')
    holder = [None]
    try:
        # saved cycles model for the load workload (built on this, the main thread of the worker)
        spec = S({'B1': 1, 'B2': 10, 'A1': '=0.5*A2+B1', 'A2': '=0.25*A1+B2'},
                 calc={'iterate': True, 'count': 100, 'delta': 1e-9})
        m = W.compile_inmem(spec, cycles=True)
        m.evaluate('S!A1')
        path = os.path.join(tmp, 'cyc.yml')
        m.to_file(path)
        warm_up()
        refs = [reference(n0, path), reference(n1, path)]
        pair = f'{n0}|{n1}'
        base_case = dict(kind='schedule', pair=pair, warm=warm, fine=fine)

        def run_schedule(prefix):
            plugins.reset()
            s = sched.Sched(prefix)
            holder[0] = s
            f0, f1 = make(n0, 100, path), make(n1, 200, path)
            if warm is True:
                g0, g1 = f0, f1
                f0 = lambda: (warm_up(), g0())[1]     # noqa: E731
                f1 = lambda: (warm_up(), g1())[1]     # noqa: E731
            s.out = s.run(f0, f1, copy_context=(warm == 'ctx'), tracer=line_tracer(holder) if fine == 'line' else None)
            holder[0] = None
            return s

        def on_result(prefix, s):
            acc.add('transitions', s.k)
            if prefix:
                acc.add('distinct_nontrivial')
            for tid, base in ((0, 100), (1, 200)):
                o = s.out[tid]
                if o[0] != 'ok':
                    acc.violation(dict(base_case, schedule=list(prefix), npre=len(prefix), thread=tid, verdict='raised',
                                       exc=o[1]),
                                  f'{pair} warm={warm} schedule {prefix}: thread {tid} ({(n0, n1)[tid]}) raised {o[1]}: {o[2]}')
                    continue
                got = strip_ids(o[1], base)
                acc.outcome(repr(got)[:200])
                if got != refs[tid]:
                    acc.violation(dict(base_case, schedule=list(prefix), npre=len(prefix), thread=tid, verdict='differs',
                                       observed=jsonable(got), expected=jsonable(refs[tid])),
                                  f'{pair} warm={warm} schedule {prefix}: thread {tid} ({(n0, n1)[tid]}) got {got} '
                                  f'but alone it gets {refs[tid]}')
        with patched(holder, [] if fine == 'line' else FINE if fine else COARSE):
            n = sched.explore(run_schedule, bound, on_result, max_schedules=max_schedules)
            # determinism: one non-trivial schedule replayed twice must give identical observations
            s1 = run_schedule([1])
            s2 = run_schedule([1])
            if (s1.out, s1.trace) != (s2.out, s2.trace):
                acc.violation(dict(base_case, schedule=[1], npre=1, thread=None, verdict='nondeterministic-replay'),
                              f'{pair}: replaying schedule [1] twice gave different observations (harness not in control)')
        acc.add('evaluations', n)
        acc.add('states', n)
        acc.add('pairs')
        if max_schedules and n >= max_schedules:
            acc.add('pairs_capped')
        if n0 == 'iterA' and n1 == 'arr22':
            acc.sample(dict(pair=pair, warm=warm, bound=bound, schedules=n, example_schedule=[3, 9],
                            points='entry of ExcelCompiler._evaluate/_evaluate_range' + (' + singleton methods' if fine else '')))
    finally:
        shutil.rmtree(tmp, ignore_errors=True)
    return acc.result()


def work_dates(job):
    """two threads each LOAD a workbook file holding date cells and evaluate it: pycel swaps openpyxl's date conversion
    (a process-wide function) while it reads cells, so the reads of one thread must not see the other's swap-back.
    Scheduling points: every source line of ExcelOpxWrapper.load / get_range; every schedule with <= 2 preemptions
    (sharded by the first one).  A lock the library holds around the swap is replaced by a cooperative stand-in."""
    shard, nshards = job
    import datetime
    import importlib
    from openpyxl import Workbook
    acc = Acc()
    tmp = tempfile.mkdtemp(prefix='c07d_')
    holder = [None]
    xw = importlib.import_module('pycel.excelwrapper')
    saved_lock = getattr(xw, '_FROM_EXCEL_LOCK', None)
    try:
        paths = []
        for name, day in (('a', 2), ('b', 9)):
            wb = Workbook()
            ws = wb.active
            ws.title = 'S'
            ws['A1'] = datetime.datetime(2020, 1, day)
            ws['B1'] = '=A1+1'
            ws['A2'] = 5
            ws['B2'] = '=A2*2+YEAR(A1)'
            pth = os.path.join(tmp, f'dates_{name}.xlsx')
            wb.save(pth)
            paths.append(pth)

        def workload(pth):
            def fn():
                from pycel.excelcompiler import ExcelCompiler
                m = ExcelCompiler(filename=pth)
                return [tagged(m.evaluate('S!B1')), tagged(m.evaluate('S!B2')), tagged(m.evaluate('S!A1'))]
            return fn
        refs = [workload(p)() for p in paths]
        if saved_lock is not None:
            xw._FROM_EXCEL_LOCK = sched.CoopLock(holder)

        def local(frame, event, arg):
            if event == 'line':
                s = holder[0]
                if s is not None:
                    s.point(f'{frame.f_code.co_name}:{frame.f_lineno}')
            return local

        def tracer(frame, event, arg):
            if event == 'call' and frame.f_code.co_qualname in ('ExcelOpxWrapper.load', 'ExcelOpxWrapper.get_range'):
                return local
            return None

        def run_schedule(prefix):
            s = sched.Sched(prefix)
            holder[0] = s
            s.out = s.run(workload(paths[0]), workload(paths[1]), tracer=tracer)
            holder[0] = None
            return s

        def on_result(prefix, s):
            acc.add('transitions', s.k)
            if prefix:
                acc.add('distinct_nontrivial')
            for tid in (0, 1):
                o = s.out[tid]
                case = dict(kind='schedule', pair='dates|dates', warm=False, fine='dates', schedule=list(prefix), npre=len(prefix), thread=tid)
                if o[0] != 'ok':
                    acc.violation(dict(case, verdict='raised', exc=o[1]), f'dates|dates schedule {prefix}: thread {tid} raised {o[1]}: {o[2]}')
                elif o[1] != refs[tid]:
                    acc.violation(dict(case, verdict='differs', observed=jsonable(o[1]), expected=jsonable(refs[tid])),
                                  f'dates|dates schedule {prefix}: thread {tid} got {o[1]} but alone it gets {refs[tid]}')
        n = sched.explore(run_schedule, 2, on_result, first=(shard, nshards))
        acc.add('evaluations', n)
        acc.add('states', n)
        if shard == 0:
            acc.add('pairs')
    finally:
        if saved_lock is not None:
            xw._FROM_EXCEL_LOCK = saved_lock
        shutil.rmtree(tmp, ignore_errors=True)
    return acc.result()


# ---------------------------------------------------------------------------------------------------------------------
# function-library workloads: two threads evaluate formulas of the same function families on their own workbooks, with
# a scheduling point at EVERY source line of the function libraries (excellib.py, lib/*.py except the argument wrappers)
LIB_WORKLOADS = {
    'round': ['=ROUND(14.95,-1)', '=ROUNDDOWN(5.25,1)', '=ROUNDUP(5.21,1)', '=TRUNC(-5.25,1)', '=MOD(7.5,2)', '=CEILING(0.3,0.1)', '=ROUND(2.5,0)'],
    'round2': ['=ROUNDUP(1.01,1)', '=ROUNDDOWN(2.99,1)', '=ROUND(0.125,2)', '=FLOOR(0.7,0.1)', '=ROUNDUP(-2.5,0)', '=MOD(-7,3)', '=TRUNC(9.99)'],
    'date': ['=YEAR(45000)', '=MONTH(45000)', '=DAY(45000)', '=EDATE(45000,1)', '=EOMONTH(32,0)', '=WEEKDAY(45001)', '=DATE(2023,3,15)', '=HOUR(0.75)'],
    'date2': ['=YEAR(36526)', '=MONTH(36526)', '=DAY(36526)', '=EOMONTH(146128,1)', '=EDATE(59,12)', '=DAY(45000)', '=DATE(1900,14,31)', '=SECOND(0.5000116)'],
    'text': ['=TEXT(2.5,"0")', '=TEXT(0.125,"0.00")', '=TEXT(1234.5,"#,##0")', '=SUBSTITUTE("abcabc","b","X",2)', '=FIND("c","abcabc",4)', '=TRIM("  a  b ")',
             '=TEXT(0.285,"0%")', '=LEFT(2.50,2)'],
    'lookup': ['=MATCH("b*",A1:A4,0)', '=VLOOKUP(2,C1:D3,2,FALSE)', '=COUNTIF(A1:A4,"a?c")', '=SUMIF(C1:C3,">1",D1:D3)', '=MATCH(2.5,C1:C3,1)', '=DEC2BIN(5,8)',
               '=HEX2DEC("FF")'],
}
LIB_CELLS = {'A1': 'abc', 'A2': 'bcd', 'A3': 'a.c', 'A4': 'b', 'C1': 1, 'C2': 2, 'C3': 3, 'D1': 10, 'D2': 20, 'D3': 30}
LIB_FILES = ('/pycel/excellib.py', '/pycel/lib/date_time.py', '/pycel/lib/text.py', '/pycel/lib/lookup.py', '/pycel/lib/stats.py',
             '/pycel/lib/engineering.py', '/pycel/lib/logical.py', '/pycel/lib/information.py')
LIB_PAIRS_QUICK = [('round', 'round2'), ('round2', 'round'), ('date', 'date2'), ('date2', 'date'), ('text', 'round'), ('round', 'text'),
                   ('text', 'text'), ('lookup', 'lookup'), ('date', 'date'), ('round', 'round'), ('lookup', 'text')]


def w_lib(name):
    def fn():
        cells = dict(LIB_CELLS)
        for i, f in enumerate(LIB_WORKLOADS[name]):
            cells[f'F{i + 1}'] = f
        m = W.compile_inmem(S(cells))
        return [tagged(m.evaluate(f'S!F{i + 1}')) for i in range(len(LIB_WORKLOADS[name]))]
    return fn


def lib_tracer(holder):
    def local(frame, event, arg):
        if event == 'line':
            s = holder[0]
            if s is not None:
                s.point(f'{frame.f_code.co_name}:{frame.f_lineno}')
        return local

    def tracer(frame, event, arg):
        if event != 'call':
            return None
        fn = frame.f_code.co_filename
        if any(fn.endswith(x) for x in LIB_FILES):
            return local
        return None
    return tracer


def work_lib(job):
    n0, n1, bound = job
    acc = Acc()
    holder = [None]
    refs = [w_lib(n0)(), w_lib(n1)()]
    pair = f'lib:{n0}|lib:{n1}'

    def run_schedule(prefix):
        s = sched.Sched(prefix)
        holder[0] = s
        s.out = s.run(w_lib(n0), w_lib(n1), tracer=lib_tracer(holder))
        holder[0] = None
        return s

    def on_result(prefix, s):
        acc.add('transitions', s.k)
        if prefix:
            acc.add('distinct_nontrivial')
        for tid in (0, 1):
            o = s.out[tid]
            case = dict(kind='schedule', pair=pair, warm=False, fine='lib', schedule=list(prefix), npre=len(prefix), thread=tid)
            if o[0] != 'ok':
                acc.violation(dict(case, verdict='raised', exc=o[1]), f'{pair} schedule {prefix}: thread {tid} raised {o[1]}: {o[2]}')
            elif o[1] != refs[tid]:
                acc.outcome(repr(o[1])[:200])
                acc.violation(dict(case, verdict='differs', observed=jsonable(o[1]), expected=jsonable(refs[tid])),
                              f'{pair} schedule {prefix}: thread {tid} got {o[1]} but alone it gets {refs[tid]}')
    n = sched.explore(run_schedule, bound, on_result)
    acc.add('evaluations', n)
    acc.add('states', n)
    acc.add('pairs')
    acc.add('lib_pairs')
    return acc.result()


def run(ctx):
    jobs = []
    pairs = list(itertools.product(WORKLOADS, repeat=2))
    k = ctx.seed % len(pairs)
    pairs = pairs[k:] + pairs[:k]
    hot = ('iterA', 'iterB', 'arr22', 'arr31')
    for n0, n1 in pairs:
        if n0 in hot and n1 in hot:
            # threads started inside a copy of the (library-using) main thread's contextvars context
            jobs.append((n0, n1, 'ctx', 2 if ctx.thorough else 1, False, None))
        for warm in (False, True):
            if ctx.thorough:
                jobs.append((n0, n1, warm, 2, False, None))
                if n0 in hot and n1 in hot:
                    jobs.append((n0, n1, warm, 2, True, 40000))
                    jobs.append((n0, n1, warm, 3, False, 40000))
                    if not warm:
                        # one preemption at EVERY source line of the singleton-owning code
                        jobs.append((n0, n1, warm, 1, 'line', 40000))
            else:
                # quick: every pair with <= 1 preemption; the pairs that touch both thread-local singletons with <= 2
                if n0 in hot and n1 in hot and not warm:
                    jobs.append((n0, n1, warm, 2, False, None))
                else:
                    jobs.append((n0, n1, warm, 1, False, None))
    jobs.sort(key=lambda j: -j[3])
    ctx.pmap(work, jobs, timeout=6000)
    ctx.pmap(work_dates, [(k, 16) for k in range(16)], timeout=6000)
    lib_pairs = list(itertools.product(sorted(LIB_WORKLOADS), repeat=2)) if ctx.thorough else LIB_PAIRS_QUICK
    ctx.pmap(work_lib, [(a, b, 1) for a, b in lib_pairs], timeout=6000)
    ctx.counts['traces_validated_against_impl'] = ctx.counts.get('evaluations', 0)
    ctx.extra['workloads'] = WORKLOADS
    ctx.extra['preemption_bound'] = ('1 for all 128 pair x warm combinations, 2 for the 16 iterative/array pairs' if not ctx.thorough
                                     else '2 for all pairs; 2 over fine points and 3 over coarse points (capped at 40000 schedules) for the 16 iterative/array pairs; 1 preemption at every source line of the singleton-owning code (sys.settrace) for those 16 pairs')
    ctx.extra['exhaustive'] = ctx.counts.get('pairs_capped', 0) == 0


def replay(case):
    if case.get('fine') == 'lib':
        n0, n1 = [x.split(':')[1] for x in case['pair'].split('|')]
        r = work_lib((n0, n1, 1))
        hits = [m for c, m in r['violations'] if c.get('schedule') == case.get('schedule') and c.get('thread') == case.get('thread')]
        return bool(hits), '\n'.join(hits[:2]) or 'no violation'
    if case.get('fine') == 'dates':
        hits = []
        for k in range(16):
            r = work_dates((k, 16))
            hits += [m for c, m in r['violations'] if c.get('schedule') == case.get('schedule') and c.get('thread') == case.get('thread')]
        return bool(hits), '\n'.join(hits[:2]) or 'no violation'
    n0, n1 = case['pair'].split('|')
    acc = Acc()
    tmp = tempfile.mkdtemp(prefix='c07r_')
    holder = [None]
    try:
        spec = S({'B1': 1, 'B2': 10, 'A1': '=0.5*A2+B1', 'A2': '=0.25*A1+B2'},
                 calc={'iterate': True, 'count': 100, 'delta': 1e-9})
        m = W.compile_inmem(spec, cycles=True)
        m.evaluate('S!A1')
        path = os.path.join(tmp, 'cyc.yml')
        m.to_file(path)
        warm_up()
        refs = [reference(n0, path), reference(n1, path)]
        plugins.reset()
        s = sched.Sched(case['schedule'])
        holder[0] = s
        f0, f1 = make(n0, 100, path), make(n1, 200, path)
        if case['warm'] is True:
            g0, g1 = f0, f1
            f0 = lambda: (warm_up(), g0())[1]     # noqa: E731
            f1 = lambda: (warm_up(), g1())[1]     # noqa: E731
        fine = case.get('fine')
        with patched(holder, [] if fine == 'line' else FINE if fine else COARSE):
            out = s.run(f0, f1, copy_context=(case['warm'] == 'ctx'), tracer=line_tracer(holder) if fine == 'line' else None)
        holder[0] = None
        lines = [f"pair {case['pair']} warm={case['warm']} schedule {case['schedule']} ({s.k} points)"]
        bad = False
        for tid, base in ((0, 100), (1, 200)):
            got = strip_ids(out[tid][1], base) if out[tid][0] == 'ok' else out[tid]
            ok = got == refs[tid]
            bad |= not ok
            lines.append(f'  thread {tid}: {got}\n     alone: {refs[tid]} {"" if ok else "  <-- differs"}')
        return bad, '\n'.join(lines)
    finally:
        shutil.rmtree(tmp, ignore_errors=True)
