"""C04 -- declared precedents cover every cell a formula actually reads (read-trace hook + consequence check)."""
import itertools

import networkx as nx

from mc import wb as W
from mc.runner import Acc, jsonable

ID = 'C04'
LEVEL = 'model_checking'
RULE = ('every formula of the reference-form grammar (plain / absolute / sheet-qualified / quoted-sheet cell and range '
        'references, both orientations, intersection, union, multi-colon, defined names incl. another sheet, unbounded '
        'column/row, ROW/COLUMN/INDEX forms incl. A1:INDEX(..), IF, VLOOKUP, CSE array and its member cells) alone and '
        'every ordered pair joined by a binary operator, placed in S!F6 of a two-sheet 4x4 workbook, in two value '
        'environments. On every execution: each (reader, address read) reported by the PYCEL_VERIF hook is among the '
        'reader\'s declared precedents (or inside one) and the dependency graph has the precedent->reader edge (for '
        'ranges: member->range->reader); and for every grid cell that is NOT an ancestor of F6 in the graph, replacing '
        'it in a from-scratch model never changes F6. Part 2: BFS over evaluate/set_value histories (incl. a cell whose '
        'graph build fails half way on an unsupported reference) with the invariant "graph ancestors of every '
        'evaluated formula cell are a superset of its specification precedent closure" checked in every state. '
        'distinct_nontrivial = distinct formulas whose evaluation made '
        'at least one traced read.')
ASSUMPTIONS = ['ranges are written top-left:bottom-right as Excel stores them (a reversed B3:A2 is normalised by Excel on entry and never reaches a file)',
               'the hook sits at the only seam compiled formulas read through (_C_/_R_ in the formula namespace)',
               'OFFSET/INDIRECT (computed references) are outside the statement and excluded']
GROUP = ('verdict', 'form')

SH2 = 'Sheet 2'
SH3 = 'P&L (2)'


def base_spec(env):
    s, t = {}, {}
    k = 0
    for r in range(1, 5):
        for c in 'ABCD':
            k += 1
            s[f'{c}{r}'] = k if env == 0 else (k * 3 + 1 if (k % 5) else 0)
            t[f'{c}{r}'] = 100 + k if env == 0 else 200 - k
    if env == 1:
        s['C2'] = 'txt'
        del s['D4']
    s['F1:G2'] = {'array': '=A1:B2*2'}
    u = {f'{c}{r}': 300 + 10 * r + i for r in range(1, 4) for i, c in enumerate('ABC')}
    return {'sheets': {'S': s, SH2: t, SH3: u}, 'active': 'S',
            'names': {'nm': ['S', '$B$2'], 'rg': ['S', '$A$1:$A$3'], 'on2': [SH2, '$C$3'], 'rg2': [SH2, '$B$1:$C$2']}}


FORMS = [
    ('cell', 'A1'), ('abs', '$B$2'), ('mixed', 'C$3'), ('own-sheet', 'S!D1'), ('quoted-sheet', "'Sheet 2'!B2"),
    ('range', 'SUM(A1:B2)'), ('range-tall', 'SUM(B2:B4)'), ('range-abs', 'SUM($C$1:$D$2)'),
    ('range-other', "SUM('Sheet 2'!A1:B2)"), ('intersect', 'SUM(A1:B3 B2:C4)'), ('intersect-cell', 'SUM(A1:C1 B1:B4)'),
    ('intersect-blank', 'SUM(A4:D4 D1:D4)'), ('intersect-row-col', 'SUM(2:2 C:C)'), ('paren-multi-colon', 'SUM((A1:B2):C3)'),
    ('punct-sheet', "'P&L (2)'!B2"), ('punct-range', "SUM('P&L (2)'!A1:B2)"), ('punct-col', "SUM('P&L (2)'!C:C)"),
    ('union', 'SUM(A1:A2,C1:C2)'), ('multi-colon', 'SUM(A1:A2:B3)'), ('name-cell', 'nm'), ('name-range', 'SUM(rg)'),
    ('name-other', 'on2'), ('name-range-other', 'SUM(rg2)'), ('col', 'SUM(A:A)'), ('row', 'SUM(2:2)'),
    ('cols', 'SUM(B:C)'), ('col-other', "SUM('Sheet 2'!D:D)"), ('row-fn', 'ROW()'), ('row-ref', 'ROW(B3)'),
    ('col-ref', 'COLUMN(C2)'), ('index', 'INDEX(A1:C3,2,2)'), ('index-range', 'SUM(A1:INDEX(A1:C3,2,2))'),
    ('index-row', 'SUM(INDEX(A1:C3,2,0))'), ('if', 'IF(A1>0,B1,C1)'), ('if-false', 'IF(A1<0,B1,D3)'),
    ('vlookup', 'VLOOKUP(5,A1:C3,2,FALSE)'), ('hlookup', 'HLOOKUP(2,A1:D2,2,FALSE)'), ('match', 'MATCH(6,B1:B4,0)'),
    ('cse-member', 'F1'), ('cse-member2', 'G2'), ('cse-range', 'SUM(F1:G2)'), ('countif', 'COUNTIF(A1:D1,">1")'),
    ('sumproduct', 'SUMPRODUCT(A1:A3,B1:B3)'), ('iferror', 'IFERROR(A1/C2,D2)'), ('choose', 'CHOOSE(2,A1,B2,C3)'),
    ('and', 'AND(A1>0,B2>0)'), ('concat', 'A1&B1'), ('lookup', 'LOOKUP(3,A1:A4,B1:B4)'), ('sum-cells', 'SUM(A1,B2,C3)'),
    ('col-plus-beyond', 'SUM(A:A)+A9'), ('row-plus-beyond', 'SUM(2:2)+K2'), ('col-other-plus-beyond', "SUM('Sheet 2'!B:B)+'Sheet 2'!B9"),
    ('abs-range-sheet', "SUM(S!$A$1:$B$2)"), ('max', 'MAX(A1:D4)'), ('lower-case', 'sum(a1:a2)'),
]


def addr_cells(addr_str):
    """cells of a bounded address string 'S!A1' / 'S!A1:B2' as set of 'S!A1'"""
    sh, ref = W.split_addr(addr_str)
    if ':' in ref:
        a, b = ref.split(':')
        if W.CELL_RE.match(a) and W.CELL_RE.match(b):
            return {f'{sh}!{c}' for row in W.range_cells(ref) for c in row}
        return None
    return {f'{sh}!{ref}'} if W.CELL_RE.match(ref) else None


def unbounded_contains(declared, cells):
    """declared like 'S!C:C' / 'S!2:2' / 'S!B:C' (whole columns / rows) contains all `cells`"""
    sh, ref = W.split_addr(declared)
    if ':' not in ref:
        return False
    a, b = ref.replace('$', '').split(':')
    for c in cells:
        csh, cref = W.split_addr(c)
        col, row = W.cell_rc(cref)
        if csh != sh:
            return False
        if a.isdigit() and b.isdigit():
            if not int(a) <= row <= int(b):
                return False
        elif a.isalpha() and b.isalpha():
            if not W.column_index_from_string(a) <= col <= W.column_index_from_string(b):
                return False
        else:
            return False
    return True


def check_read(g, by_addr, formula, addr):
    """None, or (verdict, message, reader address) for one traced read"""
    reader = formula.cell
    if reader is None or addr in W.ERRORS:
        return None
    raddr = reader.address.address
    declared = [a.address for a in formula.needed_addresses]
    cells = addr_cells(addr)
    ok_decl = addr in declared
    if not ok_decl:
        for d in declared:
            dc = addr_cells(d)
            if cells and dc and cells <= dc or cells and dc is None and unbounded_contains(d, cells):
                ok_decl = True
                break
    if not ok_decl:
        return ('read-not-declared', f'{raddr} read {addr}, which is not among its declared precedents {declared}', raddr)
    rn, pn = by_addr.get(raddr), by_addr.get(addr)
    if rn is None:
        return ('reader-not-in-graph', f'reader {raddr} is not a node of the dependency graph', raddr)
    has_edge = pn is not None and g.has_edge(pn, rn)
    if not has_edge:
        for pred in g.predecessors(rn):
            pc = addr_cells(pred.address.address)
            if cells and pc and cells <= pc or cells and pc is None and unbounded_contains(pred.address.address, cells):
                has_edge = True
                break
    if not has_edge:
        return ('edge-missing', f'{raddr} read {addr} but the graph has no edge {addr} -> {raddr}', raddr)
    if pn is not None and ':' in addr and not getattr(pn, 'formula', None):
        preds = {p.address.address for p in g.predecessors(pn)}
        missing = sorted(c for c in (cells or set()) if c not in preds)
        if missing:
            return ('range-member-edge-missing', f'range {addr} is read by {raddr} but has no edge from its member cells {missing}', raddr)
    return None


def run_formula(name, text, env, acc, do_consequence):
    import pycel.excelformula as EF
    spec = base_spec(env)
    spec['sheets']['S']['F6'] = '=' + text
    case = dict(kind='formula', form=name, formula='=' + text, env=env)
    reads = []
    EF._VERIF_READ_TRACE = lambda formula, address: reads.append((formula, str(address)))
    try:
        m = W.compile_inmem(spec)
        try:
            base_val = ('ok', m.evaluate('S!F6'))
        except Exception as exc:
            base_val = ('exc', type(exc).__name__, str(exc)[-160:])
    finally:
        EF._VERIF_READ_TRACE = None
    acc.add('evaluations')
    acc.add('states')
    if base_val[0] != 'ok':
        acc.violation(dict(case, verdict='formula-raised', exc=base_val[1]),
                      f'=' + text + f' raised {base_val[1]}: {base_val[2]}')
        return
    if reads:
        acc.add('distinct_nontrivial')
    acc.outcome(name)
    g = m.dep_graph
    by_addr = {n.address.address: n for n in g.nodes()}
    for formula, addr in reads:
        acc.add('transitions')
        v = check_read(g, by_addr, formula, addr)
        if v:
            acc.violation(dict(case, verdict=v[0], reader=v[2], read=addr), f'={text}: ' + v[1])
    if not do_consequence:
        return
    # ---- consequence: non-ancestors cannot influence F6
    f6 = by_addr.get('S!F6')
    anc = {n.address.address for n in nx.ancestors(g, f6)} if f6 is not None else set()
    grid = [f'S!{c}{r}' for r in range(1, 5) for c in 'ABCD'] + [f'{SH2}!{c}{r}' for r in range(1, 5) for c in 'ABCD'] + \
        [f'{SH3}!{c}{r}' for r in range(1, 4) for c in 'ABC'] + ['S!A9', 'S!K2', f'{SH2}!B9']      # (the last three lie beyond the used area)
    def under_unbounded(x):
        # a cell beyond the used area belongs to a whole column / row ancestor as soon as it holds something
        from pycel.excelutil import AddressRange
        for a in anc:
            try:
                r = AddressRange(a)
                if r.is_unbounded_range and x in r:
                    return True
            except Exception:
                pass
        return False
    for x in grid:
        if x in anc or (x in grid[-3:] and under_unbounded(x)):
            continue
        for v in (987.5, 'zz'):
            acc.add('evaluations')
            acc.add('transitions')
            m2 = W.compile_inmem(spec, assign={x: v})
            try:
                v2 = ('ok', m2.evaluate('S!F6'))
            except Exception as exc:
                v2 = ('exc', type(exc).__name__)
            if v2[0] != 'ok' or not W.veq(v2[1], base_val[1]):
                acc.violation(dict(case, verdict='non-ancestor-influences', cell=x, value=v, observed=jsonable(v2),
                                   expected=jsonable(base_val)),
                              f'={text}: {x} is not an ancestor of F6 in the graph, yet setting it to {v!r} changes F6 from '
                              f'{base_val[1]!r} to {v2!r}')
                break

    # ---- a cell beyond the used area that F6 itself read: writing it must reach F6 (an edge "through a containing
    # range" does not exist for it -- the node of a whole column / row holds the used area only)
    for x in (grid[-3:] if isinstance(base_val[1], (int, float)) and not isinstance(base_val[1], bool) else []):
        if not any(addr == x and formula.endswith('F6') for formula, addr in reads if isinstance(formula, str)) and \
                not any(addr == x for formula, addr in reads):
            continue
        try:
            m.set_value(x, 987.5)
            after = ('ok', m.evaluate('S!F6'))
        except Exception as exc:
            after = ('exc', type(exc).__name__)
        acc.add('evaluations')
        if after[0] == 'ok' and W.veq(after[1], base_val[1]):
            acc.violation(dict(case, verdict='write-to-read-cell-has-no-effect', cell=x, observed=jsonable(after), expected=None),
                          f'={text}: F6 read {x} (beyond the used area), but after set_value({x}, 987.5) it still evaluates to {after[1]!r}')


# ---------------------------------------------------------------- part 2: graph invariant along histories
class PG:
    """evaluate-histories (incl. a cell whose graph build fails half way) ; invariant: for every built formula
    cell the ancestors in the dependency graph are a superset of its precedent closure by the specification"""
    static_ops = True

    def __init__(self, fam):
        from mc import explore
        self.fam = fam
        spec = fam['spec']
        sh = spec.get('active') or next(iter(spec['sheets']))
        fcs = W.formula_cells(spec)
        self.spec = dict(spec)
        self.spec['sheets'] = {k: dict(v) for k, v in spec['sheets'].items()}
        self.poison = None
        if fcs:
            tgt = W.split_addr(fcs[-1])[1]
            self.spec['sheets'][sh]['Z1'] = f'={tgt}+[1]Other!A1'     # row 1: does not enlarge the used rows
            self.poison = f'{sh}!Z1'
        self.deps = W.spec_deps(fam['spec'])
        self.ops = [('ev', a) for a in fam['cells'] + fam['ranges'][:1]] + ([('ev', self.poison)] if self.poison else [])
        self.inputs = fam['inputs'][:1]
        self.ops += [('set', i, 41) for i in self.inputs]
        if fcs and self.inputs:
            self.ops.append(('trim', self.inputs[0], fcs[-1]))
        self.checked = 0
        self.read_checks = 0

    def new(self):
        return {'m': W.compile_inmem(self.spec), 'trimmed': False, 'reads': []}

    def step(self, st, op):
        import pycel.excelformula as EF
        st['reads'] = []
        try:
            if op[0] == 'ev':
                EF._VERIF_READ_TRACE = lambda formula, address: st['reads'].append((formula, str(address)))
                try:
                    return ('ok', st['m'].evaluate(op[1]))
                finally:
                    EF._VERIF_READ_TRACE = None
            if op[0] == 'trim':
                st['m'].trim_graph([op[1]], [op[2]])
                st['trimmed'] = True
                return ('trim',)
            st['m'].set_value(op[1], op[2])
            return ('set',)
        except Exception as exc:
            return ('exc', type(exc).__name__)

    def closure(self, cell):
        seen, todo = set(), [cell]
        while todo:
            x = todo.pop()
            for p in self.deps.get(x, ()):
                if p not in seen:
                    seen.add(p)
                    todo.append(p)
        return seen

    def check(self, st, hist, op, obs):
        m = st['m']
        g = m.dep_graph
        by_addr = {n.address.address: n for n in g.nodes()}
        if obs[0] == 'ok':
            for formula, addr in st['reads']:
                if formula.cell is not None and formula.cell.address.address == self.poison:
                    continue
                self.read_checks += 1
                v = check_read(g, by_addr, formula, addr)
                if v:
                    return f'after this history, {v[1]}'
        if st['trimmed']:
            return None        # frozen cells have no precedents any more: only the read check applies
        for a, c in list(m.cell_map.items()):
            if ':' in a or not getattr(c, 'formula', None) or a == self.poison or a not in self.deps:
                continue
            if c.value is None:
                continue          # not evaluated yet: its graph may legitimately be incomplete
            self.checked += 1
            node = by_addr.get(a)
            anc = {n.address.address for n in nx.ancestors(g, node)} if node is not None else set()
            want = {x for x in self.closure(a) if x in m.cell_map or True}
            covered = set()
            for r in anc:
                if ':' in r:
                    covered |= addr_cells(r) or set()
            # covered directly, or through an ancestor range node that contains the cell (as the statement allows)
            missing = sorted(x for x in want if x not in anc and x not in covered)
            if missing:
                return (f'{a} has a value but its graph ancestors {sorted(anc)} lack {missing}, which its formula '
                        f'(transitively) reads')
        return None

    def canon(self, st):
        from mc import explore
        return explore.canon_compiler(st['m'])

    def enabled(self, st, hist):
        return self.ops

    def case(self, hist, op, obs):
        return dict(kind='graph', form=self.fam['name'], verdict='ancestors-not-superset',
                    fam={k: self.fam[k] for k in ('name', 'spec', 'ranges', 'unbounded', 'inputs', 'cells')},
                    hist=[list(o) for o in hist], op=list(op))


def work_graph(job):
    from mc import explore
    fam, depth = job
    acc = Acc()
    p = PG(fam)
    res = explore.bfs(p, depth, acc, max_states=20000)
    acc.add('states', res['states'])
    acc.add('transitions', res['transitions'])
    acc.add('evaluations', res['transitions'])
    acc.add('graph_invariant_checks', p.checked)
    acc.add('read_edge_checks_in_histories', p.read_checks)
    acc.add('distinct_nontrivial', res['states'])
    return acc.result()


def work(job):
    forms, do_consequence = job
    acc = Acc()
    for name, text in forms:
        for env in (0, 1):
            run_formula(name, text, env, acc, do_consequence)
    if forms:
        acc.sample(dict(formula='=' + forms[0][1], placed_in='S!F6', form=forms[0][0],
                        sheet_S=base_spec(0)['sheets']['S'], names=base_spec(0)['names']))
    return acc.result()


def run(ctx):
    singles = list(FORMS)
    pairs = []
    ops = ['+'] if not ctx.thorough else ['+', '&', '>']
    for (n1, t1), (n2, t2) in itertools.product(FORMS, repeat=2):
        if n1 == n2:
            continue
        for op in ops:
            pairs.append((f'{n1} {op} {n2}', f'{t1}{op}{t2}'))
    k = ctx.seed % len(singles)
    singles = singles[k:] + singles[:k]
    jobs = [([f], True) for f in singles]
    chunk = 40
    # pairs: hook checks for all; the (costlier) consequence check for all pairs in thorough, every 4th in quick
    for i in range(0, len(pairs), chunk):
        part = pairs[i:i + chunk]
        if ctx.thorough:
            jobs.append((part, True))
        else:
            jobs.append((part[::4], True))
            jobs.append(([p for j, p in enumerate(part) if j % 4], False))
    ctx.pmap(work, jobs, timeout=3000)
    from mc import family
    ctx.pmap(work_graph, [(f, 4 if ctx.thorough else 3) for f in family.curated()], timeout=3000)
    ctx.counts['traces_validated_against_impl'] = ctx.counts.get('evaluations', 0)
    ctx.extra['forms'] = len(FORMS)
    ctx.extra['formulas'] = len(singles) + len(pairs)


def replay(case):
    if case['kind'] == 'graph':
        p = PG(case['fam'])
        st = p.new()
        lines = [f"workbook {case['fam']['name']} cells={p.spec['sheets']}"]
        msg = None
        for o in [tuple(x) for x in case['hist']] + [tuple(case['op'])]:
            r = p.step(st, o)
            msg = p.check(st, (), o, r)
            lines.append(f'  {o} -> {r!r}')
        lines.append('  verdict: ' + (msg or 'graph ancestors cover the specification closure'))
        return bool(msg), '\n'.join(lines)
    acc = Acc()
    run_formula(case['form'], case['formula'][1:], case['env'], acc, True)
    hits = [m for c, m in acc.violations if c['verdict'] == case['verdict']]
    return bool(hits), f"S!F6 = {case['formula']} (environment {case['env']})\n" + ('\n'.join(hits[:3]) or 'no violation')
