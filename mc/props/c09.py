"""C09 -- a failed evaluation does not corrupt the model (fault enumeration over follow-up histories)."""
import itertools

from mc import family, plugins, wb as W
from mc.runner import Acc, jsonable

ID = 'C09'
LEVEL = 'fault_enumeration'
RULE = ('every formula cell (and array formula) of every workbook in turn made to fail -- unknown function, plugin '
        'raising always, plugin raising on its 1st / 2nd call only -- in plain and iterative mode; all follow-up '
        'histories up to the stated depth (plus the depth-4 patterns evaluate, repair, write an input, evaluate in both orders) over {evaluate(any cell/range), set_value(input, v), repair = '
        'set_value(failing cell, constant), validate_calcs(output) and trim_graph(input, output) as entry points that evaluate outside evaluate()} are executed on the real compiler. Oracle per operation: evaluating the '
        'failing cell or a descendant (descendants from the specification) while the fault is active raises a '
        'PyCelException subclass; everything else equals a from-scratch model with the current inputs / repair. '
        'distinct_nontrivial = distinct (workbook, fault, history) in which a failure actually occurred and a later '
        'operation of the history was judged.')
ASSUMPTIONS = ['descendants are computed from the workbook specification, not from pycel\'s graph',
               'a transient fault may surface (as a PyCelException) only in the operation in which the plugin actually raised',
               'from-scratch in-memory compile is the value oracle']
GROUP = ('mode', 'fault', 'verdict', 'exc', 'repair_ignored', 'repair_undone')

PYCEL_ERRORS = ('UnknownFunction', 'FormulaEvalError', 'FormulaParserError', 'PyCelException')
VALUES = [7, 't']
REPAIR = 5
CYCLES = {'iterations': 100, 'tolerance': 0.001}


def faulted_spec(spec, target, kind):
    """target: 'S!B1' (plain formula cell) or 'S!D1:E2' (array)."""
    sh, ref = W.split_addr(target)
    new = dict(spec)
    new['sheets'] = {s: dict(c) for s, c in spec['sheets'].items()}
    content = new['sheets'][sh][ref]
    f = content['array'] if isinstance(content, dict) else content
    inner = f[1:]
    wrapped = f'=NOSUCHFN({inner})' if kind == 'unknown' else f'=VBOOM(1,{inner})'
    new['sheets'][sh][ref] = {'array': wrapped} if isinstance(content, dict) else wrapped
    return new


def fault_mode(kind):
    if kind == 'always':
        return {1: 'always'}
    if kind.startswith('always-'):
        return {1: ('always', kind.split('-', 1)[1])}
    if kind.startswith('kth'):
        return {1: ('kth', int(kind[3:]))}
    return {}


class Sim:
    """one execution: real model + bookkeeping (assignment, repaired, fault state)"""

    def __init__(self, fam, target, kind, mode):
        self.fam, self.target, self.kind, self.mode = fam, target, kind, mode
        self.spec = fam['spec']
        self.fspec = faulted_spec(self.spec, target, kind)
        self.deps = W.spec_deps(self.spec)
        tcells = [f'{W.split_addr(target)[0]}!{c}' for row in W.range_cells(W.split_addr(target)[1]) for c in row] \
            if ':' in target else [target]
        self.tcells = tcells
        self.desc = set()
        for t in tcells:
            self.desc |= W.descendants(self.deps, t)
        plugins.reset(fault_mode(kind))
        fs = self.fspec
        if mode == 'iterative':
            fs = dict(fs, calc={'iterate': True, 'count': CYCLES['iterations'], 'delta': CYCLES['tolerance']})
        self.m = W.compile_inmem(fs, cycles=True if mode == 'iterative' else None, plugins='mc.plugins')
        self.assign = {}
        self.repaired = False
        self.failed_once = False
        self.precedent_written_after_repair = False
        self.trimmed = False

    def affected(self, addr):
        sh, ref = W.split_addr(addr)
        if ':' in ref:
            return any(f'{sh}!{c}' in self.desc for row in W.range_cells(ref) for c in row)
        return addr in self.desc

    def fault_active(self):
        if self.repaired:
            return False
        return self.kind == 'unknown' or self.kind.startswith('always')

    def step(self, op):
        n_fired = len(plugins.FIRED)
        if op[0] == 'ev':
            try:
                r = ('ok', self.m.evaluate(op[1]))
            except Exception as exc:
                r = ('exc', type(exc).__name__, [c.__name__ for c in type(exc).__mro__], str(exc)[-200:])
        elif op[0] == 'set':
            try:
                self.m.set_value(op[1], op[2])
                self.assign[op[1]] = op[2]
                if self.repaired and any(t in W.descendants(self.deps, op[1]) for t in self.tcells):
                    self.precedent_written_after_repair = True
                r = ('set',)
            except AssertionError as exc:
                r = ('refused',) if 'not found in the cell map' in str(exc) else ('exc', 'AssertionError', [], str(exc)[-200:])
            except Exception as exc:
                r = ('exc', type(exc).__name__, [], str(exc)[-200:])
        elif op[0] in ('validate', 'validate_raise'):
            # another entry point that builds the graph and evaluates: the report is not judged, the model must stay sound
            # (validate_raise: raise_exceptions=True, the failure of the cell leaves validate_calcs as an exception)
            import contextlib
            import io
            try:
                with contextlib.redirect_stdout(io.StringIO()):
                    if op[0] == 'validate':
                        self.m.validate_calcs(output_addrs=[op[1]])
                    else:
                        self.m.validate_calcs(output_addrs=[op[1]], raise_exceptions=True)
                r = ('validated',)
            except Exception as exc:
                r = ('entry-raised', type(exc).__name__, [], str(exc)[-120:])
        elif op[0] == 'evbad':
            # a list of addresses whose last one cannot be built (unknown sheet): the request fails, the model must stay sound
            try:
                self.m.evaluate(list(op[1]) + ['NoSuchSheet!A1'])
                r = ('evaluated',)
            except Exception as exc:
                r = ('entry-raised', type(exc).__name__, [], str(exc)[-120:])
        elif op[0] == 'trim':
            # trim_graph also builds the graph (and evaluates ranges) outside evaluate(); when it succeeds the model
            # is a different one and the rest of the history is not judged
            try:
                self.m.trim_graph(list(op[1]), list(op[2]))
                self.trimmed = True
                r = ('trimmed',)
            except Exception as exc:
                r = ('entry-raised', type(exc).__name__, [], str(exc)[-120:])
        else:   # repair
            try:
                for t in self.tcells:
                    self.m.set_value(t, REPAIR)
                self.repaired = True
                r = ('set',)
            except AssertionError as exc:
                r = ('refused',) if 'not found in the cell map' in str(exc) else ('exc', 'AssertionError', [], str(exc)[-200:])
            except Exception as exc:
                r = ('exc', type(exc).__name__, [], str(exc)[-200:])
        return r, len(plugins.FIRED) > n_fired


REFMEMO = {}


def reference(fam, assign, repaired, tcells, targets):
    key = (fam['name'], tuple(sorted((a, W.tag(v)) for a, v in assign.items())), repaired, tuple(tcells))
    if key not in REFMEMO:
        a = dict(assign)
        spec = fam['spec']
        if repaired:
            spec = dict(spec)
            spec['sheets'] = {s: dict(c) for s, c in fam['spec']['sheets'].items()}
            for t in tcells:
                sh, ref = W.split_addr(t)
                for k in list(spec['sheets'][sh]):
                    if isinstance(spec['sheets'][sh][k], dict) and ref in [c for row in W.range_cells(k) for c in row]:
                        del spec['sheets'][sh][k]
                spec['sheets'][sh][ref] = REPAIR
        if len(REFMEMO) > 3000:
            REFMEMO.clear()
        REFMEMO[key] = W.scratch_values(spec, a, addrs=targets)
    return REFMEMO[key]


def judge(sim, op, res, fired, targets):
    """returns (verdict, message) ; verdict None = fine"""
    if op[0] != 'ev':
        if res[0] == 'exc':
            return 'op-raised', f'{op} raised {res[1]}: {res[3]}'
        return None, None
    addr = op[1]
    aff = sim.affected(addr)
    if res[0] == 'exc':
        is_pycel = any(c in PYCEL_ERRORS for c in res[2])
        if res[1] == 'RecursionError' and 'cycles=True' in res[3] and sim.kind == 'always-RecursionError':
            is_pycel = True          # the documented way a RecursionError raised inside a formula is reported
        if aff and (sim.fault_active() or fired):
            if not is_pycel:
                return 'bare-exception', (f'evaluate({addr}) raised {res[1]} (not one of pycel\'s own errors): {res[3][-120:]}')
            return None, None
        return 'spurious-exception', (f'evaluate({addr}) raised {res[1]} although no fault is active for it '
                                      f'(fault fired in this op: {fired}, repaired: {sim.repaired}): {res[3][-120:]}')
    # a value was returned
    if aff and sim.fault_active():
        return 'value-despite-fault', (f'evaluate({addr}) returned {W.show(res[1])} although it depends on the failing '
                                       f'cell {sim.target} ({sim.kind}), which is still failing')
    exp = reference(sim.fam, sim.assign, sim.repaired, sim.tcells, targets)[addr]
    if exp[0] != 'ok':
        return None, None
    if sim.mode == 'iterative':
        ok = W.vclose(res[1], exp[1], rel=1e-9, abs_=1e-9)
    else:
        ok = W.veq(res[1], exp[1])
    if not ok:
        return 'wrong-value', (f'evaluate({addr}) = {W.show(res[1])} but a fresh model gives {W.show(exp[1])} '
                               f'(assign={sim.assign}, repaired={sim.repaired})')
    return None, None


def repair_ignored(sim, op, res, targets):
    """defect model for the known finding 'set_value on a formula cell does not stick in iterative mode':
    true iff the observation is exactly what the model yields when the repair is ignored."""
    if not (sim.repaired and op[0] == 'ev' and sim.affected(op[1])):
        return False
    if sim.kind == 'unknown' or sim.kind.startswith('always'):
        return res[0] == 'exc' and (any(c in PYCEL_ERRORS for c in res[2]) or (res[1] == 'RecursionError' and 'cycles=True' in res[3]))
    if res[0] != 'ok':
        return False
    exp = reference(sim.fam, sim.assign, False, sim.tcells, targets)[op[1]]
    return exp[0] == 'ok' and W.vclose(res[1], exp[1], rel=1e-9, abs_=1e-9)


def repair_undone(sim, op, res, targets):
    """defect model for the known finding 'in plain mode a repaired cell gets its formula back when one of its own
    precedents is written afterwards': true iff such a write happened after the repair and the observation is exactly
    what the model yields when the repair is ignored."""
    return bool(sim.mode == 'plain' and sim.precedent_written_after_repair and repair_ignored(sim, op, res, targets))


def histories(ops, depth, quick_patterns, deep=True):
    yield from ((o,) for o in ops)
    if depth >= 2:
        yield from itertools.product(ops, repeat=2)
    if depth >= 3:
        if quick_patterns:
            evs = [o for o in ops if o[0] == 'ev']
            mids = [o for o in ops if o[0] != 'ev']
            yield from itertools.product(evs, mids, evs)
        else:
            yield from itertools.product(ops, repeat=3)
        if quick_patterns and not deep:
            return      # quick: the depth-4 patterns only for the four basic fault kinds
        # depth 4, patterns only: writes refuse cells that are not in the model yet, so a repair and a later write to
        # an input only take effect after a first evaluation
        evs = [o for o in ops if o[0] == 'ev']
        sets = [o for o in ops if o[0] == 'set']
        first = evs[-2:] if quick_patterns else evs       # quick: first evaluation of the last cell / the range only
        if ('repair',) in ops:
            yield from itertools.product(first, [('repair',)], sets, evs)
            yield from itertools.product(first, sets, [('repair',)], evs)
        # a loaded model, a failure inside validate_calcs, a write to an input, a read
        # an entry point that fails half way, a write, a read
        entries = [o for o in ops if o[0] in ('validate', 'validate_raise', 'trim', 'evbad')]
        if quick_patterns:
            yield from itertools.product(entries, sets, evs)
        vals = [o for o in ops if o[0] == 'validate_raise'] if quick_patterns else [o for o in ops if o[0] in ('validate', 'validate_raise')]
        yield from itertools.product(first, vals, sets, evs[-2:] if quick_patterns else evs)


def run_history(fam, target, kind, mode, hist, targets, acc, base):
    sim = Sim(fam, target, kind, mode)
    failed_at = None
    judged_after_failure = False
    for k, op in enumerate(hist):
        res, fired = sim.step(op)
        acc.add('transitions')
        if sim.trimmed:
            break
        if res[0] == 'exc':
            acc.outcome(res[1])
            if failed_at is None:
                failed_at = k
        elif failed_at is not None:
            judged_after_failure = True
        verdict, msg = judge(sim, op, res, fired, targets)
        if verdict:
            acc.violation(dict(base, hist=jsonable(hist[:k + 1]), verdict=verdict, repaired=sim.repaired,
                               repair_ignored=repair_ignored(sim, op, res, targets),
                               repair_undone=repair_undone(sim, op, res, targets),
                               exc=res[1] if res[0] == 'exc' else None, observed=jsonable(res[:2])),
                          f"{fam['name']} [{mode}] {target} failing by {kind}; history {list(hist[:k + 1])}: {msg}")
            break
    return failed_at is not None and (judged_after_failure or len(hist) > failed_at + 1)


def work(job):
    fam, target, kind, mode, depth, quick_patterns = job
    acc = Acc()
    targets = fam['cells'] + fam['ranges'][:1]
    inputs = [i for i in fam['inputs'] if i in W.constant_cells(fam['spec'])][:2]
    ops = [('ev', a) for a in targets] + [('set', i, v) for i in inputs for v in VALUES]
    ops.append(('evbad', tuple(fam['ranges'][:1] + fam['cells'][-2:])))
    if ':' not in target:
        # an array formula cannot be overwritten through set_value (members keep the range formula): no repair op
        ops.append(('repair',))
    if kind in ('unknown', 'always', 'kth1', 'kth2'):
        # entry points other than evaluate() that build the graph and evaluate ranges on the way
        deps = W.spec_deps(fam['spec'])
        tc = [f'{W.split_addr(target)[0]}!{c}' for row in W.range_cells(W.split_addr(target)[1]) for c in row] if ':' in target else [target]
        desc = set()
        for t in tc:
            desc |= W.descendants(deps, t)
        outs = [c for c in fam['cells'] if c in desc and c in W.formula_cells(fam['spec'])]
        if outs:
            ops.append(('validate', outs[-1]))
            ops.append(('validate_raise', outs[-1]))
            if inputs and not kind.startswith('kth'):
                ops.append(('trim', (inputs[0],), (outs[-1],)))
    base = dict(kind='fault', wb=fam['name'], fam={k: fam[k] for k in ('name', 'spec', 'ranges', 'unbounded', 'inputs', 'cells')},
                target=target, fault=kind, mode=mode)
    n = 0
    soak = []
    if kind in ('unknown', 'always') and fam['name'] in ('chain', 'diamond', 'fan_range', 'two_roots'):
        # the same failing request two hundred and ten times over, then every cell: nothing may pile up with the failures
        aff = [('ev', a) for a in targets if a in fam['cells']][-1:]
        soak = [tuple(aff * 210 + [('ev', a) for a in targets])]
    for hist in itertools.chain(histories(ops, depth, quick_patterns, deep=not kind.startswith('always-')), soak):
        n += 1
        if run_history(fam, target, kind, mode, hist, targets, acc, base):
            acc.add('distinct_nontrivial')
    acc.add('evaluations', n)
    acc.add('states', n)
    acc.add('fault_placements')
    if kind == 'always' and mode == 'plain':
        acc.sample(dict(workbook=fam['name'], failing=target, fault=kind, mode=mode,
                        faulted_cells=faulted_spec(fam['spec'], target, kind)['sheets'], n_ops=len(ops), histories=n,
                        example=[list(o) for o in ops[:2]] + [['repair'], list(ops[0])]))
    return acc.result()


def fault_targets(fam):
    t = list(W.formula_cells(fam['spec']))
    t += [f'{sh}!{rng}' for sh, rng, _ in W.spec_arrays(fam['spec'])]
    return t


def run(ctx):
    fams = family.curated()
    # two independent roots below one output: a trim from the first root has to freeze the cells below the second
    spec = family.S({'A1': 1, 'B1': 5, 'B2': '=B1*2', 'B3': '=B1+1', 'C1': '=A1+B2+B3'})
    fams.append(dict(name='two_roots', spec=spec, ranges=['S!B1:B3'], unbounded=[], inputs=['S!A1', 'S!B1'], cells=W.all_cells(spec), tags=[]))
    jobs = []
    kinds = ['unknown', 'always', 'kth1', 'kth2', 'always-NameError', 'always-AssertionError', 'always-KeyError', 'always-RecursionError']
    modes = ['plain', 'iterative']
    for f in fams:
        ts = fault_targets(f)
        for t in ts:
            for kind in kinds:
                if not ctx.thorough and kind.startswith('always-') and t not in (ts[0], ts[-1]):
                    continue        # quick: the exception-class kinds at the first and the last fault placement only
                for mode in modes:
                    jobs.append((f, t, kind, mode, 3, not ctx.thorough))
    k = ctx.seed % len(jobs)
    ctx.pmap(work, jobs[k:] + jobs[:k], timeout=3000)
    ctx.counts['traces_validated_against_impl'] = ctx.counts.get('evaluations', 0)
    ctx.extra['fault_kinds'] = kinds
    ctx.extra['modes'] = modes


def replay(case):
    fam = case['fam']
    targets = fam['cells'] + fam['ranges'][:1]
    hist = [tuple(o) for o in case['hist']]
    sim = Sim(fam, case['target'], case['fault'], case['mode'])
    lines = [f"workbook {fam['name']} [{case['mode']}] cells={sim.fspec['sheets']} (failing: {case['target']} by {case['fault']})"]
    bad = False
    for op in hist:
        res, fired = sim.step(op)
        verdict, msg = judge(sim, op, res, fired, targets)
        lines.append(f'  {op} -> {res[:2]!r}' + (f'   <-- {verdict}: {msg}' if verdict else ''))
        bad |= bool(verdict)
    return bad, '\n'.join(lines)
