"""C11 -- address algebra: parse/print round trips, notation equivalence, rectangle lattice laws, offset wrap."""
import itertools

from mc.feval import FakeCell
from mc.runner import Acc, jsonable

ID = 'C11'
LEVEL = 'model_checking'
RULE = ('(1) every cell of a boundary coordinate set (columns around Z/AA, AZ/BA, ZZ/AAA and XFD, rows around 9/10, 99/100 '
        'and 1048576) and every range between two such corners x a sheet-name pool: address, quoted_address and '
        'abs_address parse back to the same object, A1 / R1C1 / tuple notations are equal; (2) all rectangles of a 4x4 '
        '(6x6 thorough: 441 rectangles, 85 million triples) grid: resolve_range has height x width distinct member cells all contained in the range; all '
        'pairs and all triples: intersection == set intersection (or #NULL!), union == bounding box, commutative, '
        'associative, idempotent, absorption; (3) relative R1C1 offsets and address_at_offset from every anchor of the '
        'boundary set wrap modulo 16384 / 1048576 and agree with each other; unbounded rows/columns round trip. '
        'distinct_nontrivial = distinct inputs on a boundary (column letter length change, sheet limit, disjoint or '
        'touching rectangles, wrapping offsets).')
ASSUMPTIONS = ['reference = python sets of (col, row)', 'sheet names are given unquoted to the constructors, as pycel stores them']
GROUP = ('law', 'verdict')

COLS = [1, 2, 25, 26, 27, 28, 51, 52, 53, 701, 702, 703, 704, 16383, 16384]
ROWS = [1, 2, 9, 10, 11, 99, 100, 1048575, 1048576]
SHEETS = ['', 'S', 'Sheet 1', "O'Brien", 'it is', '2024', 'A1', 'R1C1', 'é', "a 'q' b", 'x.y', 'Sheet-1',
          # every other character Excel allows in a sheet name (it forbids only : \\ / ? * [ ] and a quote at either end)
          'a!b', 'x y!z', 'A!1', 'Sheet1!A1', '(1)', 'a,b', 'a;b', 'a&b', '#1', '50%', 'a=b', 'a+b', 'a<b>', 'a"b', 'a{b}', 'a~b', 'a^b',
          '$A$1', 'TRUE', '1e5', 'XFD1', 'XFE1', 'RC', 'R', '\u65e5\u672c', "don't", 'Ab12c', 'x' * 31,
          # a quote directly before a '!' inside the name (the quoted form doubles the quote: 'x''!y'!A1)
          "x'!y", "Q1 'final'!", "a'!'b",
          # blanks at the ends belong to the name
          'Data ', ' 2024', ' a b ']
MAXC, MAXR = 16384, 1048576
COLS_ALL, ROWS_ALL = COLS, ROWS
COLS_SMALL, ROWS_SMALL = [1, 27, 16384], [1, 10, 1048576]


def col_letter(c):
    s = ''
    while c:
        c, r = divmod(c - 1, 26)
        s = chr(65 + r) + s
    return s


def work_roundtrip(job):
    sheets, k, n = job[:3]
    COLS, ROWS = (COLS_SMALL, ROWS_SMALL) if len(job) > 3 and job[3] else (COLS_ALL, ROWS_ALL)
    from pycel.excelutil import AddressCell, AddressRange
    acc = Acc()

    def bad(law, x, msg, **kw):
        acc.violation(dict(kind='address', law=law, verdict='fails', input=jsonable(x), **kw), f'{law}: {msg}')

    def chk_parse(a, sheet, law):
        for attr in ('address', 'quoted_address', 'abs_address'):
            if attr != 'address' and not sheet:
                continue
            try:
                text = getattr(a, attr)
                b = AddressRange.create(text)
            except Exception as exc:
                bad(law, [str(a), attr], f'{attr} of {a!s} does not parse back: {type(exc).__name__}: {exc}', attr=attr)
                continue
            acc.add('evaluations')
            if b != a or type(b) is not type(a):
                bad(law, [str(a), attr], f'{attr} {text!r} parses to {b!s} ({type(b).__name__}), not {a!s}', attr=attr)
    i = 0
    for sheet in sheets:
        for c in COLS:
            for r in ROWS:
                i += 1
                if i % n != k:
                    continue
                acc.add('states')
                acc.add('distinct_nontrivial')
                a1 = f'{col_letter(c)}{r}'
                try:
                    t = AddressCell((c, r, c, r), sheet=sheet)
                    s = AddressRange.create((sheet + '!' if sheet else '') + a1)
                    x = AddressCell.create(f'R{r}C{c}', sheet=sheet)
                    d = AddressRange.create('$' + col_letter(c) + '$' + str(r), sheet=sheet)
                except Exception as exc:
                    bad('notations', [sheet, c, r], f'constructing ({c},{r}) on {sheet!r} raised {type(exc).__name__}: {exc}')
                    continue
                acc.add('evaluations', 4)
                if not (t == s == x == d) or str(t) != (sheet + '!' if sheet else '') + a1 or (t.col_idx, t.row) != (c, r):
                    bad('notations', [sheet, c, r], f'tuple {t!s} / A1 {s!s} / R1C1 {x!s} / $ {d!s} differ for ({c},{r})')
                chk_parse(t, sheet, 'cell-roundtrip')
        for (c1, c2) in itertools.combinations_with_replacement(COLS, 2):
            for (r1, r2) in itertools.combinations_with_replacement(ROWS, 2):
                if (c1, r1) == (c2, r2):
                    continue
                i += 1
                if i % n != k:
                    continue
                acc.add('states')
                a1 = f'{col_letter(c1)}{r1}:{col_letter(c2)}{r2}'
                try:
                    t = AddressRange((c1, r1, c2, r2), sheet=sheet)
                    s = AddressRange.create((sheet + '!' if sheet else '') + a1)
                    x = AddressRange.create(f'R{r1}C{c1}:R{r2}C{c2}', sheet=sheet)
                except Exception as exc:
                    bad('notations', [sheet, c1, r1, c2, r2], f'constructing {a1} on {sheet!r} raised {type(exc).__name__}: {exc}')
                    continue
                acc.add('evaluations', 3)
                if not (t == s == x) or t.size != (r2 - r1 + 1, c2 - c1 + 1):
                    bad('notations', [sheet, c1, r1, c2, r2], f'tuple {t!s} / A1 {s!s} / R1C1 {x!s} differ or size {t.size} wrong')
                chk_parse(t, sheet, 'range-roundtrip')
                if not (t.start in t and t.end in t):
                    bad('contains', [sheet, c1, r1, c2, r2], f'{t!s} does not contain its own corners')
        # unbounded
        for c in (1, 26, 27, 16384):
            for c2 in (c, min(c + 1, MAXC)):
                i += 1
                if i % n != k:
                    continue
                acc.add('states')
                text = (sheet + '!' if sheet else '') + f'{col_letter(c)}:{col_letter(c2)}'
                try:
                    u = AddressRange.create(text)
                except Exception as exc:
                    bad('unbounded', text, f'{text} raised {type(exc).__name__}: {exc}')
                    continue
                if not u.is_unbounded_range:
                    bad('unbounded', text, f'{text} not recognised as unbounded: {u!s}')
                chk_parse(u, sheet, 'unbounded-roundtrip')
        for r in (1, 10, 1048576):
            i += 1
            if i % n != k:
                continue
            acc.add('states')
            text = (sheet + '!' if sheet else '') + f'{r}:{r}'
            try:
                u = AddressRange.create(text)
            except Exception as exc:
                bad('unbounded', text, f'{text} raised {type(exc).__name__}: {exc}')
                continue
            chk_parse(u, sheet, 'unbounded-roundtrip')
    if k == 0:
        acc.sample(dict(cell=[27, 10], sheet='Sheet 1', forms=["Sheet 1!AA10", "'Sheet 1'!AA10", "'Sheet 1'!$AA$10", 'R10C27']))
    acc.counts['transitions'] = acc.counts.get('evaluations', 0)
    return acc.result()


def rects(n):
    out = []
    for c1 in range(1, n + 1):
        for c2 in range(c1, n + 1):
            for r1 in range(1, n + 1):
                for r2 in range(r1, n + 1):
                    out.append((c1, r1, c2, r2))
    return out


def cellset(r):
    return frozenset((c, rr) for c in range(r[0], r[2] + 1) for rr in range(r[1], r[3] + 1))


def bbox(cells):
    cs = [c for c, _ in cells]
    rs = [r for _, r in cells]
    return (min(cs), min(rs), max(cs), max(rs))


def mk(r, sheet='S'):
    from pycel.excelutil import AddressCell, AddressRange
    if (r[0], r[1]) == (r[2], r[3]):
        return AddressCell(r, sheet=sheet)
    return AddressRange(r, sheet=sheet)


def as_rect(a):
    if isinstance(a, str):
        return a
    return (a.start.col_idx, a.start.row, a.end.col_idx, a.end.row)


def work_lattice(job):
    n, k, m, triples = job
    acc = Acc()
    R = rects(n)
    objs = {r: mk(r) for r in R}
    sets = {r: cellset(r) for r in R}

    def bad(law, x, msg):
        acc.violation(dict(kind='lattice', law=law, verdict='fails', input=jsonable(x)), f'{law}: {msg}')

    def inter(a, b):
        try:
            return as_rect(objs[a] & objs[b]) if not isinstance(a, str) and not isinstance(b, str) else None
        except Exception as exc:
            return ('exc', type(exc).__name__)

    def union(a, b):
        try:
            return as_rect(objs[a] ** objs[b])
        except Exception as exc:
            return ('exc', type(exc).__name__)
    for i, a in enumerate(R):
        if i % m != k:
            continue
        A = objs[a]
        acc.add('states')
        # enumeration law
        try:
            cells = [c for row in A.resolve_range for c in row]
            got = {(c.col_idx, c.row) for c in cells}
            h, w = A.size
            if len(cells) != h * w or got != sets[a] or len(got) != len(cells) or not all(c in A for c in cells) or \
                    any(c.sheet != 'S' for c in cells):
                bad('enumeration', a, f'{A!s} enumerates {sorted(got)} (size {A.size})')
            if hasattr(A, 'rows'):
                rows = [[(c.col_idx, c.row) for c in row] for row in A.rows]
                cols = [[(c.col_idx, c.row) for c in col] for col in A.cols]
                if len(rows) != h or any(len(r) != w for r in rows):
                    bad('enumeration', a, f'{A!s}.rows has shape {[len(r) for r in rows]}')
                if [list(x) for x in zip(*rows)] != cols:
                    bad('enumeration', a, f'{A!s}.cols is not the transpose of .rows')
                # the same enumeration with the outer generator exhausted BEFORE any row / column is read
                rows2 = [[(c.col_idx, c.row) for c in row] for row in list(A.rows)]
                cols2 = [[(c.col_idx, c.row) for c in col] for col in list(A.cols)]
                if rows2 != rows or cols2 != cols:
                    bad('enumeration', a, f'list({A!s}.rows) read afterwards gives {rows2[:3]}, read row by row {rows[:3]} (cols {cols2[:3]} / {cols[:3]})')
        except Exception as exc:
            bad('enumeration', a, f'{A!s}: {type(exc).__name__}: {exc}')
        acc.add('evaluations')
        if inter(a, a) != a or union(a, a) != a:
            bad('idempotent', a, f'{A!s} & itself = {inter(a, a)}, ** itself = {union(a, a)}')
        for b in R:
            acc.add('evaluations', 2)
            ab, ba = inter(a, b), inter(b, a)
            common = sets[a] & sets[b]
            want = bbox(common) if common else '#NULL!'
            if not common or len(common) == 1 or a == b or sets[a] <= sets[b] or sets[b] <= sets[a]:
                acc.add('distinct_nontrivial')
            if ab != want:
                bad('intersection', [a, b], f'{objs[a]!s} & {objs[b]!s} = {ab}, common cells are {want}')
            if ab != ba:
                bad('commutative', [a, b], f'{objs[a]!s} & {objs[b]!s} = {ab} but reversed {ba}')
            u, u2 = union(a, b), union(b, a)
            wantu = bbox(sets[a] | sets[b])
            if u != wantu:
                bad('union', [a, b], f'{objs[a]!s} ** {objs[b]!s} = {u}, bounding box is {wantu}')
            if u != u2:
                bad('commutative', [a, b], f'union {objs[a]!s}, {objs[b]!s} = {u} but reversed {u2}')
            # result objects have the right type
            try:
                res = objs[a] & objs[b]
                if not isinstance(res, str) and (len(common) == 1) != (not res.is_range):
                    bad('intersection', [a, b], f'{objs[a]!s} & {objs[b]!s} has the wrong kind of address {res!r}')
            except Exception:
                pass
            if isinstance(u, tuple) and len(u) == 4 and isinstance(ab, tuple) and len(ab) == 4:
                # absorption: a & (a ** b) == a
                if inter(a, u) != a if u in objs else False:
                    bad('absorption', [a, b], f'{objs[a]!s} & ({objs[a]!s} ** {objs[b]!s}) != {objs[a]!s}')
            if not triples:
                continue
            for c in R:
                acc.add('evaluations')
                # associativity of intersection (judged where the intermediate results are addresses)
                if isinstance(ab, tuple) and len(ab) == 4:
                    l = inter(ab, c) if ab in objs else None
                    want3 = bbox(common & sets[c]) if (common & sets[c]) else '#NULL!'
                    if l is not None and l != want3:
                        bad('associative', [a, b, c], f'({objs[a]!s} & {objs[b]!s}) & {objs[c]!s} = {l}, common cells {want3}')
                bc = inter(b, c)
                if isinstance(bc, tuple) and len(bc) == 4 and bc in objs:
                    r_ = inter(a, bc)
                    want3 = bbox(sets[a] & sets[b] & sets[c]) if (sets[a] & sets[b] & sets[c]) else '#NULL!'
                    if r_ != want3:
                        bad('associative', [a, b, c], f'{objs[a]!s} & ({objs[b]!s} & {objs[c]!s}) = {r_}, common cells {want3}')
                if isinstance(u, tuple) and len(u) == 4 and u in objs:
                    l = union(u, c)
                    wantu3 = bbox(sets[a] | sets[b] | sets[c])
                    if l != wantu3:
                        bad('associative', [a, b, c], f'({objs[a]!s} ** {objs[b]!s}) ** {objs[c]!s} = {l}, bounding box {wantu3}')
    if k == 0:
        acc.sample(dict(a=[1, 1, 2, 2], b=[2, 2, 3, 3], intersection=[2, 2, 2, 2], union=[1, 1, 3, 3]))
        acc.sample(dict(a=[1, 1, 1, 1], b=[3, 3, 3, 3], intersection='#NULL!', union=[1, 1, 3, 3]))
    acc.counts['transitions'] = acc.counts.get('evaluations', 0)
    return acc.result()


def work_offsets(job):
    k, n = job
    from pycel.excelutil import AddressCell, AddressRange
    acc = Acc()
    offs = [-2, -1, 0, 1, 2]
    i = 0
    for c in COLS:
        for r in ROWS:
            i += 1
            if i % n != k:
                continue
            anchor = AddressCell((c, r, c, r), sheet='S')
            fake = FakeCell(anchor.address)
            for dr in offs + [MAXR - 1, -(MAXR - 1), MAXR, r - 1, -r, MAXR - r]:
                for dc in offs + [MAXC - 1, -(MAXC - 1), MAXC, c - 1, -c, MAXC - c]:
                    acc.add('states')
                    acc.add('evaluations', 2)
                    wc = (c + dc - 1) % MAXC + 1
                    wr = (r + dr - 1) % MAXR + 1
                    if wc != c + dc or wr != r + dr or wc in (1, MAXC) or wr in (1, MAXR):
                        acc.add('distinct_nontrivial')
                    case = [c, r, dr, dc]
                    try:
                        o = anchor.address_at_offset(row_inc=dr, col_inc=dc)
                    except Exception as exc:
                        acc.violation(dict(kind='offset', law='offset-wrap', verdict='raised', input=case),
                                      f'address_at_offset({dr},{dc}) from {anchor!s} raised {type(exc).__name__}: {exc}')
                        continue
                    if (o.col_idx, o.row) != (wc, wr) or o.sheet != 'S':
                        acc.violation(dict(kind='offset', law='offset-wrap', verdict='fails', input=case),
                                      f'address_at_offset(row {dr}, col {dc}) from {anchor!s} = {o!s}, expected ({wc},{wr})')
                    for text in (f'R[{dr}]C[{dc}]',) + ((f'RC[{dc}]',) if dr == 0 else ()) + ((f'R[{dr}]C',) if dc == 0 else ()) \
                            + (('RC',) if dr == dc == 0 else ()):
                        try:
                            x = AddressRange.create(text, sheet='S', cell=fake)
                        except Exception as exc:
                            acc.violation(dict(kind='offset', law='r1c1-relative', verdict='raised', input=case, text=text),
                                          f'{text} from {anchor!s} raised {type(exc).__name__}: {exc}')
                            continue
                        if (getattr(x, 'col_idx', None), getattr(x, 'row', None)) != (wc, wr) or x.is_range:
                            acc.violation(dict(kind='offset', law='r1c1-relative', verdict='fails', input=case, text=text),
                                          f'{text} from {anchor!s} = {x!s}, expected ({wc},{wr}) = address_at_offset {o!s}')
                    # absolute row / relative column mixes and the same text from a second anchor (no caching across anchors)
                    for text, want in ((f'R{wr}C[{dc}]', (wc, wr)), (f'R[{dr}]C{wc}', (wc, wr))):
                        try:
                            x = AddressRange.create(text, sheet='S', cell=fake)
                            if (x.col_idx, x.row) != want:
                                acc.violation(dict(kind='offset', law='r1c1-mixed', verdict='fails', input=case, text=text),
                                              f'{text} from {anchor!s} = {x!s}, expected {want}')
                        except Exception as exc:
                            acc.violation(dict(kind='offset', law='r1c1-mixed', verdict='raised', input=case, text=text),
                                          f'{text} from {anchor!s} raised {type(exc).__name__}: {exc}')
            # relative ranges
            try:
                x = AddressRange.create('R[1]C[1]:R[2]C[2]', sheet='S', cell=fake)
                want = ((c) % MAXC + 1, (r) % MAXR + 1, (c + 1) % MAXC + 1, (r + 1) % MAXR + 1)
                if want[0] <= want[2] and want[1] <= want[3] and as_rect(x) != want:
                    acc.violation(dict(kind='offset', law='r1c1-range', verdict='fails', input=[c, r]),
                                  f'R[1]C[1]:R[2]C[2] from {anchor!s} = {x!s}, expected {want}')
            except Exception:
                pass
    acc.counts['transitions'] = acc.counts.get('evaluations', 0)
    return acc.result()


UNB = ['A:A', 'A:B', 'B:D', 'C:C', 'XFD:XFD', 'XFC:XFD', '1:1', '3:5', '4:6', '2:2', '1048576:1048576', '1048575:1048576',
       'A1:C3', 'B2:D4', 'B2', 'A5', 'XFD1', 'A1:XFD1048576', 'A1:A1048576', 'A1:XFD1']


def bounds_of_text(t):
    """(c1, r1, c2, r2, rows_open, cols_open) of a sheet-less address text, an open direction spans the sheet"""
    a, _, b = t.partition(':')
    b = b or a

    def part(x):
        col = ''.join(ch for ch in x if ch.isalpha())
        row = ''.join(ch for ch in x if ch.isdigit())
        c = 0
        for ch in col:
            c = c * 26 + ord(ch) - 64
        return c, int(row) if row else 0
    (c1, r1), (c2, r2) = part(a), part(b)
    return (c1 or 1, r1 or 1, c2 or MAXC, r2 or MAXR, r1 == 0, c1 == 0)


def norm_result(a):
    """the rectangle an address object denotes, an open direction spans the sheet"""
    if isinstance(a, str):
        return a
    c1, r1, c2, r2 = a.start.col_idx, a.start.row, a.end.col_idx, a.end.row
    return (c1 or 1, r1 or 1, c2 or MAXC, r2 or MAXR)


def work_unbounded(job):
    """the lattice laws with whole-column / whole-row operands (and a multi-colon spelling): the result denotes
    exactly the common cells / the bounding box, whichever way round, a range is idempotent, and the printed result
    parses back to itself; judged on the rectangles (an open direction = 1..limit)"""
    from pycel.excelutil import AddressRange
    acc = Acc()

    def bad(law, x, msg):
        acc.violation(dict(kind='lattice', law=law, verdict='fails', input=jsonable(x)), f'{law}: {msg}')
    for sheet in ('', 'S'):
        pre = sheet + '!' if sheet else ''
        objs = {t: AddressRange.create(pre + t) for t in UNB}
        rect = {t: bounds_of_text(t)[:4] for t in UNB}
        for x in UNB:
            for y in UNB:
                acc.add('evaluations', 2)
                acc.add('states')
                acc.add('distinct_nontrivial')
                a, b = rect[x], rect[y]
                ic = (max(a[0], b[0]), max(a[1], b[1]), min(a[2], b[2]), min(a[3], b[3]))
                want_i = ic if ic[0] <= ic[2] and ic[1] <= ic[3] else '#NULL!'
                want_u = (min(a[0], b[0]), min(a[1], b[1]), max(a[2], b[2]), max(a[3], b[3]))
                for law, op, want in (('intersection', lambda p, q: p & q, want_i), ('union', lambda p, q: p ** q, want_u)):
                    try:
                        r1, r2 = op(objs[x], objs[y]), op(objs[y], objs[x])
                    except Exception as exc:
                        bad(law, [x, y], f'{pre}{x} {law} {pre}{y} raised {type(exc).__name__}: {exc}')
                        continue
                    if norm_result(r1) != want:
                        bad(law, [x, y], f'{pre}{x} {law} {pre}{y} = {r1!s} = {norm_result(r1)}, expected the rectangle {want}')
                    elif norm_result(r2) != norm_result(r1) or str(r1) != str(r2):
                        bad('commutative', [x, y], f'{pre}{x} {law} {pre}{y} = {r1!s} but reversed {r2!s}')
                    elif not isinstance(r1, str):
                        try:
                            back = AddressRange.create(str(r1))
                            if back != r1:
                                bad('roundtrip', [x, y], f'{r1!s} (result of {pre}{x} {law} {pre}{y}) parses back to {back!s}')
                        except Exception as exc:
                            bad('roundtrip', [x, y], f'{r1!s} (result of {pre}{x} {law} {pre}{y}) does not parse: {type(exc).__name__}')
            if str(objs[x] & objs[x]) != str(objs[x]) or str(objs[x] ** objs[x]) != str(objs[x]):
                bad('idempotent', x, f'{pre}{x} & itself = {objs[x] & objs[x]!s}, ** itself = {objs[x] ** objs[x]!s}')
    # containment: exactly the cells of the rectangle on the range's own sheet (an open direction spans the sheet);
    # a cell given without a sheet is judged by its coordinates alone
    from pycel.excelutil import AddressCell
    probes = [(1, 1), (1, 2), (2, 2), (3, 4), (4, 6), (1, 1048576), (16384, 1), (16384, 1048576), (2, 1048575), (16383, 3), (5, 5), (1, 5)]
    for t in UNB:
        c1, r1, c2, r2 = bounds_of_text(t)[:4]
        for rs in ('', 'S', 'T'):
            rng = AddressRange.create((rs + '!' if rs else '') + t)
            if not rng.is_range:
                continue
            for (c, r) in probes:
                for cs in ('', 'S', 'T'):
                    acc.add('evaluations')
                    cell = AddressCell((c, r, c, r), sheet=cs)
                    want = c1 <= c <= c2 and r1 <= r <= r2 and not (rs and cs and rs != cs)
                    try:
                        got = cell in rng
                    except Exception as exc:
                        bad('contains', [t, rs, c, r, cs], f'{cell!s} in {rng!s} raised {type(exc).__name__}: {exc}')
                        continue
                    if got != want:
                        bad('contains', [t, rs, c, r, cs], f'({cell!s} in {rng!s}) is {got}, the rectangle {(c1, r1, c2, r2)} on sheet {rs!r} says {want}')
    # operands on different / missing sheets: two different sheets have nothing in common (#VALUE!), a sheet-less
    # operand takes the other one's sheet, whichever way round and whichever operand is a single cell
    shapes = ['A1:D5', 'B3', 'C4:F9', 'A:A', 'B3:B3']
    for x in shapes:
        for y in shapes:
            for sx in ('', 's', 't'):
                for sy in ('', 's', 't'):
                    acc.add('evaluations', 2)
                    a = AddressRange.create((sx + '!' if sx else '') + x)
                    b = AddressRange.create((sy + '!' if sy else '') + y)
                    for law, op in (('intersection', lambda p, q: p & q), ('union', lambda p, q: p ** q)):
                        try:
                            r1, r2 = op(a, b), op(b, a)
                        except Exception as exc:
                            bad(law, [sx, x, sy, y], f'{a!s} {law} {b!s} raised {type(exc).__name__}: {exc}')
                            continue
                        if sx and sy and sx != sy:
                            if r1 != '#VALUE!' or r2 != '#VALUE!':
                                bad(law, [sx, x, sy, y], f'{a!s} {law} {b!s} = {r1!s} / reversed {r2!s}: different sheets, expected #VALUE!')
                            continue
                        if str(r1) != str(r2):
                            bad('commutative', [sx, x, sy, y], f'{a!s} {law} {b!s} = {r1!s} but reversed {r2!s}')
                        elif not isinstance(r1, str) and r1.sheet != (sx or sy):
                            bad(law, [sx, x, sy, y], f'{a!s} {law} {b!s} = {r1!s}: sheet {r1.sheet!r}, expected {(sx or sy)!r}')
    # a multi-colon spelling is the bounding rectangle of its parts, with or without a sheet
    for txt, same in (('A1:B2:C3', 'A1:C3'), ('C3:A1:B2', 'A1:C3'), ('S!A1:B2:C3', 'S!A1:C3'), ('B2:B2:D4', 'B2:D4')):
        acc.add('evaluations')
        try:
            a, b = AddressRange.create(txt), AddressRange.create(same)
            forms = [a.address, a.quoted_address, a.abs_address]
            if a != b or hash(a) != hash(b) or a.sheet != b.sheet or any(AddressRange.create(f) != b for f in forms) or \
                    str(a & b) != str(b & a) or (a & b).sheet != (b & a).sheet:
                bad('notations', txt, f'{txt} -> {a!r} (sheet {a.sheet!r}) is not the same address as {same} -> {b!r}')
        except Exception as exc:
            bad('notations', txt, f'{txt}: {type(exc).__name__}: {exc}')
    acc.counts['transitions'] = acc.counts.get('evaluations', 0)
    return acc.result()


def run(ctx):
    n = 16
    sh = SHEETS[ctx.seed % len(SHEETS):] + SHEETS[:ctx.seed % len(SHEETS)]
    ctx.pmap(work_roundtrip, [(sh if ctx.thorough else sh[:6] + ["a 'q' b", 'a!b', 'x y!z', 'a,b', "x'!y", "Q1 'final'!"], k, n) for k in range(n)], timeout=3000)
    if not ctx.thorough:
        # every sheet name of the pool over a small coordinate set (quoting / splitting does not depend on the coordinates)
        ctx.pmap(work_roundtrip, [(sh, k, n, True) for k in range(n)], timeout=3000)
    g = 6 if ctx.thorough else 4
    m = 64 if not ctx.thorough else 441
    ctx.pmap(work_lattice, [(g, k, m, True) for k in range(m)], timeout=6000)
    ctx.pmap(work_offsets, [(k, n) for k in range(n)], timeout=3000)
    ctx.pmap(work_unbounded, [(0,)], timeout=600)
    ctx.counts['traces_validated_against_impl'] = ctx.counts.get('evaluations', 0)
    ctx.extra['grid'] = g
    ctx.extra['sheet_names'] = SHEETS


def replay(case):
    if case['kind'] == 'lattice' and (isinstance(case.get('input'), str) or (isinstance(case.get('input'), list) and case['input'] and isinstance(case['input'][0], str))):
        res = work_unbounded((0,))
        hits = [m for c, m in res['violations'] if c.get('input') == case.get('input') and c.get('law') == case.get('law')]
        return bool(hits), '\n'.join(hits[:3]) or 'no violation'
    r = {'address': work_roundtrip, 'lattice': work_lattice, 'offset': work_offsets}[case['kind']]
    if case['kind'] == 'address':
        res = r((SHEETS, 0, 1))
    elif case['kind'] == 'lattice':
        res = r((4, 0, 1, len(case['input']) == 3 if isinstance(case['input'], list) else False))
    else:
        res = r((0, 1))
    hits = [m for c, m in res['violations'] if c.get('law') == case['law'] and c.get('input') == case['input']]
    return bool(hits), '\n'.join(hits[:3]) or 'no violation for this input'
