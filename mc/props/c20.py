"""C20 -- text functions: slicing partitions, first-match search, decimal-exact TEXT."""
import itertools
import re
from decimal import Decimal, ROUND_HALF_UP

from mc import feval, wb as W
from mc.runner import Acc, jsonable

ID = 'C20'
LEVEL = 'model_checking'
RULE = ('every string of length <= 4 (5 thorough) over {a, b, A, space, e-acute} x every n, k in -1..10: LEFT / RIGHT / MID / '
        'REPLACE / LEN vs python slicing written from the statement, the partition identity LEFT(s,n)&MID(s,n+1,LEN(s)) = s, '
        'REPLACE = LEFT & t & MID (t text, number, logical, blank), FIND of every find-string of length <= 2 (with start '
        'positions) = first match or #VALUE!, SUBSTITUTE all / i-th (i in 1..5) for non-self-overlapping search strings, '
        'CONCATENATE == &, TRIM (single inner spaces, none at the ends), UPPER/LOWER/TRIM idempotent, EXACT; numbers in '
        'place of text render as in &; TEXT(x, f) for x = k/10^j (|k| <= 3000, j <= 3) x 12 formats of 0 # , . % vs an exact '
        'decimal formatter (half away from zero). distinct_nontrivial = cases with out-of-range positions, empty results, '
        'repeated characters or rounding ties/carries.')
ASSUMPTIONS = ['LEN of a number is not judged (the statement lists the slicing functions; tests/lib/test_text.py pins len_(3.0) == 3)',
               'SUBSTITUTE with a self-overlapping search string is not judged (an empty one changes nothing)',
               'TEXT formats containing # are judged by the numeric value of the rendering where optional digits are involved; '
               'negative values that round to zero are skipped']
GROUP = ('fn', 'verdict')

ALPHA = ['a', 'b', 'A', ' ', 'é']


def strings(maxlen):
    for L in range(0, maxlen + 1):
        for p in itertools.product(ALPHA, repeat=L):
            yield ''.join(p)


def lit(s):
    return '"' + s.replace('"', '""') + '"'


def work_slicing(job):
    k0, m, maxlen = job
    acc = Acc()
    ev = feval.Evaluator()

    def chk(fn, f, env, exp, **info):
        o = ev.run(f, env)
        acc.add('evaluations')
        case = dict(kind='slice', fn=fn, formula=f, env=jsonable(env))
        case.update(info)
        if o[0] != 'ok':
            acc.violation(dict(case, verdict='raised', exc=o[1]), f'{f} with {env} raised {o[1]}: {o[2][-80:]}')
        elif not W.veq(o[1], exp):
            acc.violation(dict(case, verdict='wrong-value', observed=jsonable(o[1]), expected=jsonable(exp)),
                          f'{f} with {env} = {o[1]!r}, expected {exp!r}')
        return o
    for i, s in enumerate(strings(maxlen)):
        if i % m != k0:
            continue
        L = len(s)
        env = {'A1': s if s else None}
        if s == '':
            env = {'A1': ''}
        chk('LEN', '=LEN(A1)', env, L)
        chk('UPPER', '=UPPER(UPPER(A1))', env, s.upper())
        chk('LOWER', '=LOWER(LOWER(A1))', env, s.lower())
        t = ' '.join(x for x in s.split(' ') if x)
        chk('TRIM', '=TRIM(A1)', env, t)
        chk('TRIM', '=TRIM(TRIM(A1))', env, t)
        chk('EXACT', '=EXACT(A1,LOWER(A1))', env, s == s.lower())
        chk('EXACT', '=EXACT(A1,A1)', env, True)
        for n in range(-1, 11):
            env['B1'] = n
            acc.add('states')
            if n < 0 or n > L or len(set(s)) < L:
                acc.add('distinct_nontrivial')
            chk('LEFT', '=LEFT(A1,B1)', env, s[:n] if n >= 0 else '#VALUE!', s=s, n=n)
            chk('RIGHT', '=RIGHT(A1,B1)', env, (s[L - n:] if n <= L else s) if n > 0 else ('' if n == 0 else '#VALUE!'), s=s, n=n)
            if n >= 0:
                chk('partition', '=LEFT(A1,B1)&MID(A1,B1+1,LEN(A1))', env, s, s=s, n=n)
            if n >= 0:
                chk('partition', '=LEFT(A1,LEN(A1)-MIN(B1,LEN(A1)))&RIGHT(A1,MIN(B1,LEN(A1)))', env, s, s=s, n=n)
            for k in (-1, 0, 1, 2, 5, 10):
                env['C1'] = k
                chk('MID', '=MID(A1,B1,C1)', env, s[n - 1:n - 1 + k] if (n >= 1 and k >= 0) else '#VALUE!', s=s, n=n, k=k)
                for tname, tval, trend in (('text', 'XY', 'XY'), ('empty', '', ''), ('float', 3.0, '3'), ('bool', True, 'TRUE'),
                                           ('blank', None, ''), ('frac', 2.5, '2.5')):
                    if tname not in ('text', 'empty') and (k not in (0, 1) or n not in (1, 2, L + 1)):
                        continue
                    env['D1'] = tval
                    if n >= 1 and k >= 0:
                        exp = s[:n - 1] + trend + s[n - 1 + k:]
                    else:
                        exp = '#VALUE!'
                    chk('REPLACE', '=REPLACE(A1,B1,C1,D1)', env, exp, s=s, n=n, k=k, t=tname)
                    if n >= 1 and k >= 0 and tname in ('text', 'float', 'bool'):
                        chk('REPLACE', '=EXACT(REPLACE(A1,B1,C1,D1),LEFT(A1,B1-1)&D1&MID(A1,B1+C1,LEN(A1)+1))', env, True,
                            s=s, n=n, k=k, t=tname + '-law')
    if k0 == 0:
        acc.sample(dict(s='ab a', n=2, LEFT='ab', MID_rest='a', RIGHT2=' a', REPLACE_2_1_XY='aXY a'))
    acc.counts['transitions'] = acc.counts.get('evaluations', 0)
    return acc.result()


def overlapping(f):
    return any(f[i:] == f[:len(f) - i] for i in range(1, len(f)))


def work_search(job):
    k0, m, maxlen = job
    acc = Acc()
    ev = feval.Evaluator()
    finds = [''.join(p) for L in (1, 2) for p in itertools.product(ALPHA, repeat=L)] + ['']
    for i, s in enumerate(strings(maxlen)):
        if i % m != k0:
            continue
        env = {'A1': s}
        for f in finds:
            env['B1'] = f
            acc.add('states')
            pos = s.find(f)
            o = ev.run('=FIND(B1,A1)', env)
            acc.add('evaluations')
            exp = pos + 1 if pos >= 0 else '#VALUE!'
            if s.count(f) > 1 if f else False:
                acc.add('distinct_nontrivial')
            if o[0] != 'ok' or o[1] != exp:
                acc.violation(dict(kind='search', fn='FIND', verdict='wrong-value', s=s, f=f, observed=jsonable(o[:2]), expected=exp),
                              f'=FIND({f!r},{s!r}) = {o[:2]!r}, first match is {exp!r}')
            elif pos >= 0:
                c = ev.run('=EXACT(MID(A1,FIND(B1,A1),LEN(B1)),B1)', env)
                acc.add('evaluations')
                if c[:2] != ('ok', True):
                    acc.violation(dict(kind='search', fn='FIND', verdict='mid-at-find-differs', s=s, f=f), f'MID({s!r},FIND({f!r},..),LEN) != {f!r}')
            for start in range(1, len(s) + 2):
                if not f:
                    continue
                env['C1'] = start
                o = ev.run('=FIND(B1,A1,C1)', env)
                acc.add('evaluations')
                p2 = s.find(f, start - 1)
                e2 = p2 + 1 if p2 >= 0 else '#VALUE!'
                if o[0] != 'ok' or o[1] != e2:
                    acc.violation(dict(kind='search', fn='FIND', verdict='wrong-value', s=s, f=f, start=start, observed=jsonable(o[:2]), expected=e2),
                                  f'=FIND({f!r},{s!r},{start}) = {o[:2]!r}, first match from there is {e2!r}')
            if not f or overlapping(f):
                continue
            for new in ('X', '', 'aa'):
                env['D1'] = new
                o = ev.run('=SUBSTITUTE(A1,B1,D1)', env)
                acc.add('evaluations')
                exp = s.replace(f, new)
                if o[0] != 'ok' or not W.veq(o[1], exp):
                    acc.violation(dict(kind='search', fn='SUBSTITUTE', verdict='wrong-value', s=s, f=f, new=new, inst=None,
                                       observed=jsonable(o[:2]), expected=exp),
                                  f'=SUBSTITUTE({s!r},{f!r},{new!r}) = {o[:2]!r}, expected {exp!r}')
                for inst in range(1, 6):
                    env['E1'] = inst
                    o = ev.run('=SUBSTITUTE(A1,B1,D1,E1)', env)
                    acc.add('evaluations')
                    idx = -1
                    st = 0
                    for _ in range(inst):
                        idx = s.find(f, st)
                        if idx < 0:
                            break
                        st = idx + len(f)
                    exp = s if idx < 0 else s[:idx] + new + s[idx + len(f):]
                    if o[0] != 'ok' or not W.veq(o[1], exp):
                        acc.violation(dict(kind='search', fn='SUBSTITUTE', verdict='wrong-value', s=s, f=f, new=new, inst=inst,
                                           observed=jsonable(o[:2]), expected=exp),
                                      f'=SUBSTITUTE({s!r},{f!r},{new!r},{inst}) = {o[:2]!r}, replacing exactly occurrence {inst} gives {exp!r}')
    acc.counts['transitions'] = acc.counts.get('evaluations', 0)
    return acc.result()


def work_numbers(job):
    acc = Acc()
    ev = feval.Evaluator()
    vals = [(3.0, '3'), (2.5, '2.5'), (-1, '-1'), (1e3, '1000'), (0, '0'), (True, 'TRUE'), (False, 'FALSE'), (None, ''),
            (12345.678, '12345.678'), (0.5, '0.5'), (100.0, '100'), (-2.0, '-2')]
    for v, rend in vals:
        env = {'A1': v, 'X1': 6, 'X2': 2}
        L = len(rend)
        forms = [('=A1', v)]
        if v == 3.0:
            forms.append(('=X1/X2', 3.0))
        for expr, _ in forms:
            for n in range(-1, 6):
                env['B1'] = n
                acc.add('states')
                acc.add('distinct_nontrivial')
                for fn, f, exp in (
                        ('LEFT', f'=LEFT({expr[1:]},B1)', rend[:n] if n >= 0 else '#VALUE!'),
                        ('RIGHT', f'=RIGHT({expr[1:]},B1)', (rend[L - n:] if n <= L else rend) if n > 0 else ('' if n == 0 else '#VALUE!')),
                        ('MID', f'=MID({expr[1:]},B1,2)', rend[n - 1:n + 1] if n >= 1 else '#VALUE!'),
                        ('REPLACE', f'=REPLACE({expr[1:]},B1,1,"Z")', rend[:n - 1] + 'Z' + rend[n:] if n >= 1 else '#VALUE!')):
                    o = ev.run(f, env)
                    acc.add('evaluations')
                    if o[0] != 'ok' or not W.veq(o[1], exp):
                        acc.violation(dict(kind='numbers', fn=fn, verdict='wrong-value', value=jsonable(v), expr=expr, n=n,
                                           observed=jsonable(o[:2]), expected=exp),
                                      f'{f} with A1={v!r}, n={n} = {o[:2]!r}; the value renders as {rend!r}, expected {exp!r}')
            for fn, f, exp in (('CONCATENATE', f'=CONCATENATE({expr[1:]},"|",{expr[1:]})', rend + '|' + rend),
                               ('CONCAT', f'=EXACT(CONCATENATE({expr[1:]},"x"),{expr[1:]}&"x")', True),
                               ('FIND', f'=FIND(".",{expr[1:]}&".")', rend.find('.') + 1 if '.' in rend else L + 1),
                               ('SUBSTITUTE', f'=SUBSTITUTE({expr[1:]},"0","o")', rend.replace('0', 'o')),
                               ('UPPER', f'=UPPER({expr[1:]})', rend.upper()), ('TRIM', f'=TRIM({expr[1:]})', rend)):
                o = ev.run(f, env)
                acc.add('evaluations')
                if o[0] != 'ok' or not W.veq(o[1], exp):
                    acc.violation(dict(kind='numbers', fn=fn, verdict='wrong-value', value=jsonable(v), expr=expr,
                                       observed=jsonable(o[:2]), expected=exp),
                                  f'{f} with A1={v!r} = {o[:2]!r}, expected {exp!r} (renders as {rend!r})')
    acc.counts['transitions'] = acc.counts.get('evaluations', 0)
    return acc.result()


FORMATS = ['0', '0.0', '0.00', '#', '#.#', '#.##', '#,##0', '#,##0.00', '0%', '0.0%', '0.00%', '000', '0.000', '#,##0.0',
           '0,000', '000,000', '0,000.00', '0,000%']


def group3(digits):
    """thousands separators every three digits from the right (padding zeros are grouped like any digit)"""
    out = ''
    while len(digits) > 3:
        out = ',' + digits[-3:] + out
        digits = digits[:-3]
    return digits + out


def fmt_expected(x, f):
    """(strict_text or None, numeric_value) for formats made of 0 # , . %"""
    q = Decimal(repr(x)) if not isinstance(x, int) else Decimal(x)
    pct = f.endswith('%')
    body = f[:-1] if pct else f
    if pct:
        q = q * 100
    intpart, _, frac = body.partition('.')
    decimals = len(frac)
    quant = Decimal(1).scaleb(-decimals)
    r = q.quantize(quant, rounding=ROUND_HALF_UP)
    if r == 0 and q < 0:
        return None, None            # negative zero: skipped
    has_hash = '#' in body.replace('#,##0', '0')      # '#,##0' behaves like grouped '0'
    if has_hash:
        return None, r
    group = ',' in intpart
    min_int = intpart.replace(',', '').replace('#', '').count('0')
    sign = '-' if r < 0 else ''
    a = abs(r)
    s = f'{a:.{decimals}f}'
    ip, _, fp = s.partition('.')
    ip = ip.zfill(min_int)
    if group:
        ip = group3(ip)
    out = sign + ip + ('.' + fp if decimals else '') + ('%' if pct else '')
    return out, r


def work_text(job):
    k0, m = job[:2]
    big = len(job) > 2 and job[2]
    acc = Acc()
    ev = feval.Evaluator()
    i = 0
    for j in range(0, 5 if big else 4):
        for k in (range(-30000, 30001) if big else range(-3000, 3001)):
            i += 1
            if i % m != k0:
                continue
            x = k / 10 ** j if j else k
            env = {'A1': x}
            for f in FORMATS:
                env['B1'] = f
                strict, val = fmt_expected(x, f)
                if val is None:
                    continue
                o = ev.run('=TEXT(A1,B1)', env)
                acc.add('evaluations')
                acc.add('states')
                q = Decimal(repr(x)) * (100 if f.endswith('%') else 1)
                dec = len(f.rstrip('%').partition('.')[2])
                if (q.scaleb(dec) * 2) % 2 == 1:
                    acc.add('distinct_nontrivial')
                case = dict(kind='text', fn='TEXT', x=x, fmt=f)
                if o[0] != 'ok':
                    acc.violation(dict(case, verdict='raised', exc=o[1]), f'=TEXT({x!r},{f!r}) raised {o[1]}: {o[2][-80:]}')
                    continue
                if strict is not None:
                    if o[1] != strict:
                        acc.violation(dict(case, verdict='wrong-rendering', observed=jsonable(o[1]), expected=strict),
                                      f'=TEXT({x!r},{f!r}) = {o[1]!r}, exact decimal formatting gives {strict!r}')
                else:
                    txt = str(o[1]).replace(',', '').replace('%', '')
                    try:
                        got = Decimal(txt) if txt not in ('', '-', '.', '-.') else Decimal(0)
                    except Exception:
                        acc.violation(dict(case, verdict='wrong-rendering', observed=jsonable(o[1]), expected=str(val)),
                                      f'=TEXT({x!r},{f!r}) = {o[1]!r} is not a number rendering')
                        continue
                    if got != val:
                        acc.violation(dict(case, verdict='wrong-rendering', observed=jsonable(o[1]), expected=str(val)),
                                      f'=TEXT({x!r},{f!r}) = {o[1]!r}, its value should be {val}')
    if k0 == 0:
        acc.sample(dict(x=2.5, fmt='0', expected='3'))
        acc.sample(dict(x=0.285, fmt='0.00', expected='0.29'))
        acc.sample(dict(x=1234.5, fmt='#,##0.00', expected='1,234.50'))
    acc.counts['transitions'] = acc.counts.get('evaluations', 0)
    return acc.result()


def work_trim_ws(job):
    """TRIM removes the plain space (U+0020) only: other white space characters are characters like any other"""
    acc = Acc()
    ev = feval.Evaluator()
    alpha = ['a', ' ', '\t', '\u00a0', '\u3000', '\n']
    for L in range(0, 5):
        for p in itertools.product(alpha, repeat=L):
            s = ''.join(p)
            exp = ' '.join(x for x in s.split(' ') if x)
            for f, e in (('=TRIM(A1)', exp), ('=LEN(TRIM(A1))', len(exp))):
                o = ev.run(f, {'A1': s})
                acc.add('evaluations')
                acc.add('states')
                acc.add('distinct_nontrivial', int(any(c in s for c in '\t\u00a0\u3000\n')))
                if o[0] != 'ok' or not W.veq(o[1], e):
                    acc.violation(dict(kind='slice', fn='TRIM', verdict='wrong-value', formula=f, env={'A1': s}, observed=jsonable(o[:2]),
                                       expected=jsonable(e)),
                                  f'{f} with A1={s!r} = {o[:2]!r}, expected {e!r} (only U+0020 is trimmed)')
    acc.counts['transitions'] = acc.counts.get('evaluations', 0)
    return acc.result()


EXT_XS = [123456789012345.6, 1000000000000000.5, 1e21, 1e22, 1e23, 1e27, 5e27, 1e28, 1e300, 1.7976931348623157e308, 5e-324, 1e-300,
          0.1, 0.1 + 0.2, 2.675, 0.285, 1.005, 1234567.891]
EXT_FORMATS = ['0', '0.00', '#,##0', '#,##0.00', '0,000', '0%', '0.00%', '0.' + '0' * 15, '0.' + '0' * 18, '0.' + '0' * 25, '0.' + '0' * 40, '000']


def fmt_exact(x, f):
    """exact rendering for formats of 0 , . % (no #) at any magnitude / number of decimals"""
    import decimal
    with decimal.localcontext(decimal.Context(prec=2000)):
        q = Decimal(repr(float(x)))
        pct = f.endswith('%')
        body = f[:-1] if pct else f
        if pct:
            q = q * 100
        intpart, _, frac = body.partition('.')
        decimals = len(frac)
        r = q.quantize(Decimal(1).scaleb(-decimals), rounding=ROUND_HALF_UP)
        if r == 0 and q < 0:
            return None
        sign = '-' if r < 0 else ''
        ip, _, fp = f'{abs(r):.{decimals}f}'.partition('.')
        ip = ip.zfill(intpart.replace(',', '').replace('#', '').count('0'))
        if ',' in intpart:
            ip = group3(ip)
        return sign + ip + ('.' + fp if decimals else '') + ('%' if pct else '')


def work_offgrid(job):
    """positions and counts off the integer grid 1..: FIND from a start below 1 is #VALUE! and never counts from the
    end; a fractional position or count acts as an adjacent whole one (never as 'everything'); SUBSTITUTE of the empty
    text changes nothing; TEXT stays decimal-exact at magnitudes and decimals beyond 28 significant digits."""
    acc = Acc()
    ev = feval.Evaluator()

    def run(f, env):
        acc.add('evaluations')
        acc.add('states')
        acc.add('distinct_nontrivial')
        return ev.run(f, env)

    def among(fn, f, env, frac_cell, lo, hi, **info):
        """the formula with the fractional value equals the formula at one of the adjacent integers lo / hi"""
        o = run(f, env)
        alts = []
        for v in (lo, hi):
            alts.append(ev.run(f, dict(env, **{frac_cell: v}))[:2])
        case = dict(kind='offgrid', fn=fn, formula=f, env=jsonable(env), **info)
        if o[0] != 'ok':
            acc.violation(dict(case, verdict='raised', exc=o[1]), f'{f} with {env} raised {o[1]}: {o[2][-80:]}')
        elif o[:2] not in alts:
            acc.violation(dict(case, verdict='fraction-not-adjacent', observed=jsonable(o[1]), expected=jsonable([a[1] for a in alts])),
                          f'{f} with {env} = {o[1]!r}; with {frac_cell} = {lo} / {hi} it is {alts[0][1]!r} / {alts[1][1]!r}')

    part = job[0]
    for s in (strings(3) if part in (0, None) else ()):
        if not s:
            continue
        L = len(s)
        for n in range(0, L + 1):
            x = n + 0.5
            among('LEFT', '=LEFT(A1,B1)', {'A1': s, 'B1': x}, 'B1', n, n + 1)
            among('RIGHT', '=RIGHT(A1,B1)', {'A1': s, 'B1': x}, 'B1', n, n + 1)
            among('MID', '=MID(A1,1,B1)', {'A1': s, 'B1': x}, 'B1', n, n + 1)
            among('MID', '=MID(A1,B1,1)', {'A1': s, 'B1': x + 1}, 'B1', n + 1, n + 2)
            among('REPLACE', '=REPLACE(A1,1,B1,"X")', {'A1': s, 'B1': x}, 'B1', n, n + 1)
            among('REPLACE', '=REPLACE(A1,B1,1,"X")', {'A1': s, 'B1': x + 1}, 'B1', n + 1, n + 2)
        for f in sorted(set(s)) + [s[:2]]:
            for st in (-2, -1, 0):
                o = run('=FIND(B1,A1,C1)', {'A1': s, 'B1': f, 'C1': st})
                if o[:2] != ('ok', '#VALUE!'):
                    acc.violation(dict(kind='search', fn='FIND', verdict='wrong-value', s=s, f=f, start=st, observed=jsonable(o[:2]),
                                       expected='#VALUE!'),
                                  f'=FIND({f!r},{s!r},{st}) = {o[:2]!r}; a start position below 1 is #VALUE!')
            for st in range(1, L + 1):
                among('FIND', '=FIND(B1,A1,C1)', {'A1': s, 'B1': f, 'C1': st + 0.5}, 'C1', st, st + 1)
        for new in ('X', ''):
            for inst in (None, 1, 2):
                f = '=SUBSTITUTE(A1,"",D1)' if inst is None else '=SUBSTITUTE(A1,"",D1,E1)'
                o = run(f, {'A1': s, 'D1': new, 'E1': inst})
                if o[0] != 'ok' or not W.veq(o[1], s):
                    acc.violation(dict(kind='offgrid', fn='SUBSTITUTE', formula=f, env=jsonable({'A1': s, 'D1': new, 'E1': inst}),
                                       verdict='empty-search-text', observed=jsonable(o[:2]), expected=s),
                                  f'{f} with A1={s!r}, D1={new!r}, E1={inst!r} = {o[:2]!r}; there is no occurrence of the empty text, expected {s!r}')
    for x in (EXT_XS if part in (1, None) else ()):
        for sgn in (1, -1):
            for f in EXT_FORMATS:
                xv = sgn * x
                exp = fmt_exact(xv, f)
                if exp is None:
                    continue
                o = run('=TEXT(A1,B1)', {'A1': xv, 'B1': f})
                case = dict(kind='text', fn='TEXT', x=xv, fmt=f, extreme=True)
                if o[0] != 'ok':
                    acc.violation(dict(case, verdict='raised', exc=o[1]), f'=TEXT({xv!r},{f!r}) raised {o[1]}: {o[2][-80:]}')
                elif o[1] != exp:
                    acc.violation(dict(case, verdict='wrong-rendering', observed=jsonable(o[1])[:80], expected=exp[:80]),
                                  f'=TEXT({xv!r},{f!r}) = {str(o[1])[:60]!r}.., exact decimal formatting gives {exp[:60]!r}..')
    acc.counts['transitions'] = acc.counts.get('evaluations', 0)
    return acc.result()


def work_fresh_thread(job):
    """TEXT ties (and a slice of the slicing functions) evaluated on a thread that never used the library, after the
    library was first used on this process's main thread: rounding must not depend on per-thread decimal state"""
    import threading
    acc = Acc()
    feval.Evaluator().run('=TEXT(2.5,"0")&LEFT("abc",1)&TEXT(0.125,"0.00")', {})
    box = {}
    xs = [0.125, 2.5, 1234.5, 0.045, -2.5, 0.25, 1.005, 0.5, 1.5, -0.5, 12.345, 0.285, 9.9995, 1e22, 2.675, 1000000.5, 1e-7]
    fs = ['0', '0.0', '0.00', '#,##0', '0,000.0', '0%', '0.0%', '000.000']

    def body():
        ev = feval.Evaluator()
        out = []
        for x in xs:
            for f in fs:
                out.append((x, f, ev.run('=TEXT(A1,B1)', {'A1': x, 'B1': f}), fmt_exact(x, f.replace('#,##0', '0,0'))))
        box['out'] = out
        box['slices'] = [ev.run(f, {'A1': 2.5, 'B1': 'abcabc'}) for f in ('=LEFT(A1,2)', '=FIND("c",B1,4)', '=SUBSTITUTE(B1,"b","X",2)', '=TRIM("  a  b ")')]
    t = threading.Thread(target=body)
    t.start()
    t.join()
    for x, f, o, e in box.get('out', []):
        acc.add('evaluations')
        acc.add('states')
        acc.add('distinct_nontrivial')
        if e is None:
            continue
        if f == '#,##0':
            sign = '-' if e.startswith('-') else ''       # '0,0' pads to two digits, '#,##0' to one
            e = sign + (e.lstrip('-').lstrip('0').lstrip(',') or '0')
        if o[0] != 'ok' or o[1] != e:
            acc.violation(dict(kind='thread', fn='TEXT', verdict='wrong-value', x=x, f=f, observed=jsonable(o[:2]), expected=e),
                          f'=TEXT({x!r},{f!r}) evaluated on a fresh thread = {o[:2]!r}, exact decimal formatting gives {e!r}')
    want = [('ok', '2.'), ('ok', 6), ('ok', 'abcaXc'), ('ok', 'a b')]
    for o, e in zip(box.get('slices', []), want):
        if o[:2] != e:
            acc.violation(dict(kind='thread', fn='slices', verdict='wrong-value', observed=jsonable(o[:2]), expected=jsonable(e)),
                          f'on a fresh thread {o[:2]!r}, expected {e!r}')
    if 'out' not in box:
        acc.violation(dict(kind='thread', fn='thread', verdict='raised'), 'the fresh thread died')
    acc.counts['transitions'] = acc.counts.get('evaluations', 0)
    return acc.result()


def run(ctx):
    m = 64
    ml = 5 if ctx.thorough else 4
    ctx.pmap(work_trim_ws, [(0,)], timeout=1200)
    ctx.pmap(work_fresh_thread, [(0,)], timeout=600)
    ctx.pmap(work_slicing, [((k + ctx.seed) % m, m, ml) for k in range(m)], timeout=6000)
    ctx.pmap(work_search, [(k, m, ml) for k in range(m)], timeout=6000)
    ctx.pmap(work_numbers, [(0,)], timeout=600)
    ctx.pmap(work_offgrid, [(0,), (1,)], timeout=1200)
    ctx.pmap(work_text, [(k, 64, ctx.thorough) for k in range(64)], timeout=6000)
    ctx.counts['traces_validated_against_impl'] = ctx.counts.get('evaluations', 0)
    ctx.extra['alphabet'] = ALPHA
    ctx.extra['formats'] = FORMATS


def replay(case):
    if case['kind'] == 'thread':
        r = work_fresh_thread((0,))
        hits = [m for c, m in r['violations'] if c.get('x') == case.get('x') and c.get('f') == case.get('f')]
        return bool(hits), '\n'.join(hits[:2]) or 'no violation'
    ev = feval.Evaluator()
    if case['kind'] == 'slice':
        o = ev.run(case['formula'], case['env'])
        exp = case.get('expected')
        return (o[0] != 'ok' or not W.veq(o[1], exp)), f"{case['formula']} with {case['env']} -> {o[:2]!r}; expected {exp!r}"
    if case['kind'] == 'offgrid':
        r = work_offgrid((None,))
        hits = [m for c, m in r['violations'] if c.get('formula') == case['formula'] and c.get('env') == case['env']]
        return bool(hits), '\n'.join(hits[:2]) or 'no violation'
    if case['kind'] == 'text' and case.get('extreme'):
        o = ev.run('=TEXT(A1,B1)', {'A1': case['x'], 'B1': case['fmt']})
        exp = fmt_exact(case['x'], case['fmt'])
        return (o[0] != 'ok' or o[1] != exp), f"=TEXT({case['x']!r},{case['fmt']!r}) -> {str(o[1])[:80]!r}; expected {str(exp)[:80]!r}"
    if case['kind'] == 'text':
        o = ev.run('=TEXT(A1,B1)', {'A1': case['x'], 'B1': case['fmt']})
        strict, val = fmt_expected(case['x'], case['fmt'])
        return (o[0] != 'ok' or (strict is not None and o[1] != strict)), f"=TEXT({case['x']!r},{case['fmt']!r}) -> {o[:2]!r}; expected {strict or val!r}"
    if case['kind'] == 'search':
        env = {'A1': case['s'], 'B1': case['f'], 'C1': case.get('start'), 'D1': case.get('new'), 'E1': case.get('inst')}
        if case['fn'] == 'FIND':
            f = '=FIND(B1,A1,C1)' if case.get('start') else '=FIND(B1,A1)'
        else:
            f = '=SUBSTITUTE(A1,B1,D1,E1)' if case.get('inst') else '=SUBSTITUTE(A1,B1,D1)'
        o = ev.run(f, env)
        exp = case.get('expected')
        return (o[0] != 'ok' or not W.veq(o[1], exp)), f"{f} with {env} -> {o[:2]!r}; expected {exp!r}"
    r = work_numbers((0,))
    hits = [m for c, m in r['violations'] if c.get('fn') == case['fn'] and c.get('value') == case.get('value') and c.get('n') == case.get('n')]
    return bool(hits), '\n'.join(hits[:2]) or 'no violation'
