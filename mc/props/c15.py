"""C15 -- conditional aggregation selects exactly the matching cells."""
import itertools
import re

from mc import feval, wb as W
from mc.runner import Acc, jsonable

ID = 'C15'
LEVEL = 'model_checking'
RULE = ('criteria ranges = all vectors of length <= 3 over an 11-value mixed pool and length 4 over a 6-value pool (the full pool in thorough), as a '
        'column and as an r x c block, paired with a value range holding distinct powers of two (so the SUM identifies '
        'exactly which positions were selected) x every criterion of the grammar {n, "n", "=n", "<>n", "<n", "<=n", ">n", '
        '">=n", text, "=text", "<>text", wildcards, "", "=", "<>"} held in a cell: COUNTIF / SUMIF / AVERAGEIF / MAXIFS / '
        'MINIFS / COUNTIFS / SUMIFS / AVERAGEIFS vs a hand-written predicate; laws: one-criterion IFS == IF, criteria '
        'and a second pool of texts holding characters special to a regular-expression engine ( . + ( ) [ ] | ^ $ \\ { } ) x 32 '
        'criteria mixing them with * and ? and <>; pairs commute, "=x" and "<>x" partition the range, AVERAGEIFS = SUMIFS/COUNTIFS; 2 and 3 criteria pairs incl. '
        'pairs that select nothing; never an exception. distinct_nontrivial = (range, criterion) cases whose range '
        'holds at least one cell of a type other than the criterion\'s.')
ASSUMPTIONS = ['selection is judged only where the statement fixes it: logical cells, numeric text cells vs numeric criteria, '
               'blank cells vs "" / "=" / "<>", and ordered comparison of text with text are enumerated for totality only',
               'value range cells are distinct powers of two: the sum encodes the selected set exactly']
GROUP = ('fn', 'verdict')

POOL = [1, 2, 2.5, '2', 'apple', 'Apple', 'apples', 'b?d', '', True, None]
POOL_SMALL = [1, 2, 'apple', 'apples', 'x', None]
CRITERIA = [2, '2', '=2', '<>2', '<2', '<=2', '>2', '>=2', 2.5, '>1.5', '<>x', 'apple', '=apple', '<>apple', 'APPLE', 'a*',
            '?pple', 'appl?', '*pl', '*e', 'a?ple*', '*', '', '=', '<>', '>100', '<0', 'b?d', 'x', '=a*', '<>a*', '<>?pple', '=*e']
# text holding characters that are special to a regular-expression engine but plain to Excel, with and without wildcards
META_POOL = ['a.c', 'abc', 'a+c', '(x', 'x)', '[a]c', 'ac', 'A.C', 'a|c', 2, None]
META_CRITERIA = ['a.c', '=a.c', '<>a.c', 'a.*', 'a?c', '*.c', '(*', '*)', '?)', '[a]*', 'a+*', 'a+c', '=a.c*', '<>a*', '<>?.c', '<>(*',
                 '=a*', '<>*', '=*', '<>?', '^a*', 'a$*', 'a|*', '\\*', '{*', '*}', '*c', '<>*c', '=?x', '<>?x', '**', '?*']
UNJ = None


def is_num(x):
    return isinstance(x, (int, float)) and not isinstance(x, bool)


def parse(crit):
    """-> (op, value, kind) with kind in {'num', 'text', 'wild', 'empty'}"""
    if is_num(crit):
        return '=', crit, 'num'
    m = re.match(r'^(<>|<=|>=|=|<|>)?(.*)$', crit)
    op, v = m.group(1) or '=', m.group(2)
    try:
        return op, float(v), 'num'
    except ValueError:
        pass
    if v == '':
        return op, v, 'empty'
    if op in ('=', '<>') and ('*' in v or '?' in v):
        return op, v, 'wild'
    return op, v, 'text'


def wild_match(pat, text):
    rx = ''.join('.*' if ch == '*' else '.' if ch == '?' else re.escape(ch) for ch in pat)
    return re.fullmatch(rx, text, re.I | re.S) is not None


def matches(cell, crit):
    """True / False / None (not pinned by the statement)"""
    op, v, kind = parse(crit)
    if isinstance(cell, bool):
        return UNJ
    if kind == 'num':
        if is_num(cell):
            return {'=': cell == v, '<>': cell != v, '<': cell < v, '<=': cell <= v, '>': cell > v, '>=': cell >= v}[op]
        if isinstance(cell, str):
            try:
                float(cell)
                return UNJ          # numeric text vs numeric criterion
            except ValueError:
                pass
            return op == '<>'        # text never satisfies <, >, =; always <>
        if cell is None:
            return op == '<>'
        return UNJ
    if kind == 'empty':
        if cell is None or cell == '':
            return UNJ
        return op == '<>' if op in ('=', '<>') else UNJ
    if kind == 'wild':
        m = isinstance(cell, str) and wild_match(v, cell)
        if op == '<>' and cell is None:
            return UNJ               # a blank cell against "<>pattern": totality only
        return m if op == '=' else not m      # "<>pattern" is the complement of "=pattern"
    # plain text
    if op in ('=', '<>'):
        eq = isinstance(cell, str) and cell.lower() == v.lower()
        return eq if op == '=' else not eq
    if isinstance(cell, str):
        return UNJ                   # ordered comparison of text with text
    return False                     # numbers / blanks never satisfy an ordered comparison with text


def env_block(vec, r, c, col0=1, row0=1):
    env = {}
    k = 0
    for i in range(r):
        for j in range(c):
            if vec[k] is not None:
                env[f'{W.get_column_letter(col0 + j)}{row0 + i}'] = vec[k]
            k += 1
    a, b = f'{W.get_column_letter(col0)}{row0}', f'{W.get_column_letter(col0 + c - 1)}{row0 + r - 1}'
    return env, (a if a == b else f'{a}:{b}')


def layouts(n):
    return [(n, 1)] + [(r, n // r) for r in range(1, n) if n % r == 0]


def expected(fn, sel, vals):
    chosen = [v for s, v in zip(sel, vals) if s]
    if fn == 'COUNT':
        return len(chosen)
    if fn == 'SUM':
        return sum(chosen)
    if fn == 'AVERAGE':
        return sum(chosen) / len(chosen) if chosen else '#DIV/0!'
    if fn == 'MAX':
        return max(chosen) if chosen else 0
    if fn == 'MIN':
        return min(chosen) if chosen else 0


def work_single(job):
    k, m, maxlen = job[:3]
    full4 = len(job) > 3 and job[3]
    meta = len(job) > 4 and job[4]
    criteria = META_CRITERIA if meta else CRITERIA
    acc = Acc()
    ev = feval.Evaluator()
    i = 0
    for n in range(1, maxlen + 1):
        pool = META_POOL if meta else POOL if (n <= 3 or full4) else POOL_SMALL
        for vec in itertools.product(pool, repeat=n):
            i += 1
            if i % m != k:
                continue
            vals = [2 ** j for j in range(n)]
            for (r, c) in (layouts(n) if n <= 3 else [(n, 1), (2, 2)]):
                env, rng = env_block(vec, r, c, 1, 1)
                env2, vrng = env_block(vals, r, c, 6, 1)
                env.update(env2)
                for crit in criteria:
                    env['K1'] = crit
                    sel = [matches(x, crit) for x in vec]
                    judged = all(s is not None for s in sel)
                    acc.add('states')
                    op, v, kind = parse(crit)
                    if any((isinstance(x, str) != (kind != 'num')) or x is None for x in vec):
                        acc.add('distinct_nontrivial')
                    forms = [('COUNT', f'=COUNTIF({rng},K1)'), ('COUNT', f'=COUNTIFS({rng},K1)'),
                             ('SUM', f'=SUMIF({rng},K1,{vrng})'), ('SUM', f'=SUMIFS({vrng},{rng},K1)'),
                             ('AVERAGE', f'=AVERAGEIF({rng},K1,{vrng})'), ('AVERAGE', f'=AVERAGEIFS({vrng},{rng},K1)'),
                             ('MAX', f'=MAXIFS({vrng},{rng},K1)'), ('MIN', f'=MINIFS({vrng},{rng},K1)')]
                    got = {}
                    for fn, f in forms:
                        obs = ev.run(f, env)
                        acc.add('evaluations')
                        got[f] = obs
                        case = dict(kind='single', fn=f.split('(')[0][1:], formula=f, rng=list(vec), layout=[r, c], crit=crit)
                        if obs[0] != 'ok':
                            acc.violation(dict(case, verdict='raised', exc=obs[1]),
                                          f'{f} with range {list(vec)} ({r}x{c}), criterion {crit!r} raised {obs[1]}: {obs[2][-100:]}')
                            continue
                        if not (is_num(obs[1]) or obs[1] == '#DIV/0!'):
                            acc.violation(dict(case, verdict='not-a-number', observed=jsonable(obs[1])),
                                          f'{f} with range {list(vec)}, criterion {crit!r} returned {obs[1]!r}')
                            continue
                        if judged:
                            exp = expected(fn, sel, vals)
                            if not W.vclose(obs[1], exp, rel=1e-12, abs_=1e-12):
                                acc.violation(dict(case, verdict='wrong-selection', observed=jsonable(obs[1]), expected=jsonable(exp),
                                                   selected=sel),
                                              f'{f} with range {list(vec)} ({r}x{c}), values {vals}, criterion {crit!r} = {obs[1]!r}; '
                                              f'matching positions {sel} give {exp!r}')
                    # one-criterion IFS == IF (also where selection is not judged)
                    for a, b in ((0, 1), (2, 3), (4, 5)):
                        x, y = got[forms[a][1]], got[forms[b][1]]
                        if x[0] == y[0] == 'ok' and not W.vclose(x[1], y[1], rel=1e-12, abs_=1e-12):
                            acc.violation(dict(kind='single', fn=forms[a][1].split('(')[0][1:], verdict='ifs-differs-from-if',
                                               rng=list(vec), layout=[r, c], crit=crit, formula=forms[a][1]),
                                          f'{forms[a][1]} = {x[1]!r} but {forms[b][1]} = {y[1]!r} (range {list(vec)}, criterion {crit!r})')
                    # "=x" and "<>x" partition the range
                    if isinstance(crit, str) and crit.startswith('=') and len(crit) > 1:
                        env['K1'] = '<>' + crit[1:]
                        o2 = ev.run(f'=COUNTIF({rng},K1)', env)
                        o1 = got[forms[0][1]]
                        acc.add('evaluations')
                        if o1[0] == o2[0] == 'ok' and is_num(o1[1]) and is_num(o2[1]) and o1[1] + o2[1] != n:
                            def _numtext_eq(x):
                                try:
                                    return isinstance(x, str) and float(x) == float(crit[1:])
                                except ValueError:
                                    return False
                            acc.violation(dict(kind='single', fn='COUNTIF', verdict='not-a-partition', rng=list(vec), layout=[r, c],
                                               crit=crit, formula=forms[0][1],
                                               numeric_text_counted_twice=(o1[1] + o2[1] - n == sum(_numtext_eq(x) for x in vec)
                                                                           and o1[1] + o2[1] > n)),
                                          f'COUNTIF {crit!r} = {o1[1]} and {"<>" + crit[1:]!r} = {o2[1]} do not add up to {n} over {list(vec)}')
                    # AVERAGEIFS = SUMIFS / COUNTIFS
                    s_, c_, a_ = got[forms[3][1]], got[forms[1][1]], got[forms[5][1]]
                    if s_[0] == c_[0] == a_[0] == 'ok' and is_num(c_[1]):
                        want = s_[1] / c_[1] if c_[1] else '#DIV/0!'
                        if not W.vclose(a_[1], want, rel=1e-12, abs_=1e-12):
                            acc.violation(dict(kind='single', fn='AVERAGEIFS', verdict='avg-not-sum-over-count', rng=list(vec),
                                               layout=[r, c], crit=crit, formula=forms[5][1]),
                                          f'AVERAGEIFS {a_[1]!r} != SUMIFS {s_[1]!r} / COUNTIFS {c_[1]!r} (range {list(vec)}, {crit!r})')
    if k == 0:
        acc.sample(dict(range=[1, 'apple', 'Apple', None], values=[1, 2, 4, 8], criterion='apple', SUMIF=6, COUNTIF=2))
        acc.sample(dict(range=[1, 'apple', 2.5], values=[1, 2, 4], criterion='<>2', SUMIF=7))
    acc.counts['transitions'] = acc.counts.get('evaluations', 0)
    return acc.result()


C2 = ['>0', '>1', '>100', '<>2', 2]
C3 = ['>=5', '>6', '<0']


def work_multi(job):
    k, m = job
    acc = Acc()
    ev = feval.Evaluator()
    pool = [1, 2, 'apple', 'apples', None]
    r2, r3 = [1, 2, 3], [5, 5, 7]
    vals = [1, 2, 4]
    i = 0
    for vec in itertools.product(pool, repeat=3):
        i += 1
        if i % m != k:
            continue
        env = {}
        for j in range(3):
            if vec[j] is not None:
                env[f'A{j + 1}'] = vec[j]
            env[f'B{j + 1}'] = r2[j]
            env[f'C{j + 1}'] = r3[j]
            env[f'F{j + 1}'] = vals[j]
        for c1 in CRITERIA:
            s1 = [matches(x, c1) for x in vec]
            for c2 in C2:
                s2 = [matches(x, c2) for x in r2]
                for c3 in [None] + C3:
                    s3 = [matches(x, c3) for x in r3] if c3 is not None else [True] * 3
                    sel = [a and b and c if None not in (a, b, c) else None for a, b, c in zip(s1, s2, s3)]
                    # a position is decided False as soon as one criterion is False
                    sel = [False if (a is False or b is False or c is False) else s for s, a, b, c in zip(sel, s1, s2, s3)]
                    judged = all(s is not None for s in sel)
                    env.update({'K1': c1, 'K2': c2, 'K3': c3})
                    pairs = [('A1:A3', 'K1'), ('B1:B3', 'K2')] + ([('C1:C3', 'K3')] if c3 is not None else [])
                    acc.add('states')
                    acc.add('distinct_nontrivial', int(not any(s for s in sel if s)))
                    for order in itertools.permutations(pairs):
                        args = ','.join(f'{r},{c}' for r, c in order)
                        res = {}
                        for fn, f in (('COUNT', f'=COUNTIFS({args})'), ('SUM', f'=SUMIFS(F1:F3,{args})'),
                                      ('AVERAGE', f'=AVERAGEIFS(F1:F3,{args})'), ('MAX', f'=MAXIFS(F1:F3,{args})'),
                                      ('MIN', f'=MINIFS(F1:F3,{args})')):
                            obs = ev.run(f, env)
                            acc.add('evaluations')
                            case = dict(kind='multi', fn=f.split('(')[0][1:], formula=f, rng=list(vec), crits=[c1, c2, c3])
                            if obs[0] != 'ok':
                                acc.violation(dict(case, verdict='raised', exc=obs[1]),
                                              f'{f} with A={list(vec)}, criteria {[c1, c2, c3]} raised {obs[1]}')
                                continue
                            if judged:
                                exp = expected(fn, sel, vals)
                                if not W.vclose(obs[1], exp, rel=1e-12, abs_=1e-12):
                                    acc.violation(dict(case, verdict='wrong-selection', observed=jsonable(obs[1]), expected=jsonable(exp)),
                                                  f'{f} with A={list(vec)}, B={r2}, C={r3}, criteria {[c1, c2, c3]} = {obs[1]!r}; '
                                                  f'positions matching every criterion {sel} give {exp!r}')
                            res[fn] = obs[1]
                        key = tuple(sorted(res.items(), key=repr))
                        if order == tuple(pairs):
                            first = key
                        elif key != first:
                            acc.violation(dict(kind='multi', fn='IFS', verdict='criteria-do-not-commute', rng=list(vec),
                                               crits=[c1, c2, c3], formula=args),
                                          f'criteria order {args} gives {dict(key)} but the original order gives {dict(first)}')
    acc.counts['transitions'] = acc.counts.get('evaluations', 0)
    return acc.result()


def work_cells(job):
    """single-cell (1x1) ranges and aggregated cells holding 0 / empty / text"""
    acc = Acc()
    ev = feval.Evaluator()
    for a in [5, 0, 'x', None, 2]:
        for b in [0, 0.0, 7, 'txt', None, True]:
            for crit in ['>0', 5, '<>x', 'x', '=', '<>']:
                env = {'A1': a, 'B1': b, 'K1': crit}
                sel = matches(a, crit)
                for f, f2 in (('=SUMIF(A1,K1,B1)', '=SUMIFS(B1,A1,K1)'), ('=AVERAGEIF(A1,K1,B1)', '=AVERAGEIFS(B1,A1,K1)'),
                              ('=SUMIF(A1:A1,K1,B1:B1)', '=SUMIFS(B1:B1,A1:A1,K1)')):
                    o1, o2 = ev.run(f, env), ev.run(f2, env)
                    acc.add('evaluations', 2)
                    acc.add('states')
                    acc.add('distinct_nontrivial')
                    case = dict(kind='cells', fn=f.split('(')[0][1:], formula=f, a=a, b=b, crit=crit)
                    if o1[0] != 'ok' or o2[0] != 'ok':
                        acc.violation(dict(case, verdict='raised'), f'{f} / {f2} with A1={a!r} B1={b!r} K1={crit!r}: {o1[:2]!r} {o2[:2]!r}')
                        continue
                    if not W.vclose(o1[1], o2[1], rel=1e-12, abs_=1e-12):
                        acc.violation(dict(case, verdict='ifs-differs-from-if', observed=jsonable(o1[1]), other=jsonable(o2[1])),
                                      f'{f} = {o1[1]!r} but {f2} = {o2[1]!r} with A1={a!r}, B1={b!r}, criterion {crit!r}')
                    if sel is not None and 'SUM' in f:
                        exp = (b if is_num(b) else 0) if sel else 0
                        if isinstance(b, bool):
                            continue
                        if not W.vclose(o1[1], exp, rel=1e-12, abs_=1e-12):
                            acc.violation(dict(case, verdict='wrong-selection', observed=jsonable(o1[1]), expected=exp),
                                          f'{f} with A1={a!r}, B1={b!r}, criterion {crit!r} = {o1[1]!r}, expected {exp!r}')
    # error values in the AGGREGATED range: one in a selected cell is the result, one in an unselected cell is ignored;
    # never an exception, never a piece of the error text
    crange = [1, 2, 3, 'x']
    for epos in range(4):
        for err in ('#DIV/0!', '#N/A'):
            vals = [10, 20, 40, 80]
            vals[epos] = err
            env = {f'A{i + 1}': crange[i] for i in range(4)}
            env.update({f'B{i + 1}': vals[i] for i in range(4)})
            for crit in ('>0', '>1', 2, 'x', '<>x', '>5'):
                env['K1'] = crit
                sel = [matches(c, crit) for c in crange]
                chosen = [v for s_, v in zip(sel, vals) if s_]
                for fn, f in (('SUM', '=SUMIF(A1:A4,K1,B1:B4)'), ('SUM', '=SUMIFS(B1:B4,A1:A4,K1)'), ('AVERAGE', '=AVERAGEIF(A1:A4,K1,B1:B4)'),
                              ('AVERAGE', '=AVERAGEIFS(B1:B4,A1:A4,K1)'), ('MAX', '=MAXIFS(B1:B4,A1:A4,K1)'), ('MIN', '=MINIFS(B1:B4,A1:A4,K1)')):
                    o = ev.run(f, env)
                    acc.add('evaluations')
                    acc.add('states')
                    acc.add('distinct_nontrivial')
                    want = err if err in chosen else expected(fn, sel, vals)
                    case = dict(kind='cells', fn=f.split('(')[0][1:], formula=f, a=jsonable(vals), b=None, crit=crit, error_cell=epos)
                    if o[0] != 'ok':
                        acc.violation(dict(case, verdict='raised'), f'{f} with A1:A4={crange}, B1:B4={vals}, K1={crit!r} raised {o[1]}: {o[2][-100:]}')
                    elif not W.vclose(o[1], want, rel=1e-12, abs_=1e-12):
                        acc.violation(dict(case, verdict='wrong-selection', observed=jsonable(o[1]), expected=jsonable(want)),
                                      f'{f} with A1:A4={crange}, B1:B4={vals}, K1={crit!r} = {o[1]!r}, expected {want!r}')
    # criteria and cells holding a line break
    cells = ['a\nb', 'a', '\n', 'x\ny', 'A\nB']
    env = {f'A{i + 1}': c for i, c in enumerate(cells)}
    env.update({f'B{i + 1}': 2 ** i for i in range(5)})
    for crit, want in (('a\nb', [0, 4]), ('=a\nb', [0, 4]), ('<>a\nb', [1, 2, 3]), ('\n', [2]), ('a*', [0, 1, 4]), ('*\n*', [0, 2, 3, 4]),
                       ('?\n?', [0, 3, 4]), ('<>*\n*', [1])):
        env['K1'] = crit
        for fn, f in (('COUNT', '=COUNTIF(A1:A5,K1)'), ('COUNT', '=COUNTIFS(A1:A5,K1)'), ('SUM', '=SUMIF(A1:A5,K1,B1:B5)')):
            o = ev.run(f, env)
            acc.add('evaluations')
            acc.add('states')
            exp = len(want) if fn == 'COUNT' else sum(2 ** i for i in want)
            case = dict(kind='cells', fn=f.split('(')[0][1:], formula=f, a=cells, b=None, crit=crit)
            if o[0] != 'ok':
                acc.violation(dict(case, verdict='raised'), f'{f} with cells {cells}, criterion {crit!r} raised {o[1]}: {o[2][-100:]}')
            elif not W.veq(o[1], exp):
                acc.violation(dict(case, verdict='wrong-selection', observed=jsonable(o[1]), expected=exp),
                              f'{f} with cells {cells}, criterion {crit!r} = {o[1]!r}, expected {exp!r} (positions {want})')
    acc.counts['transitions'] = acc.counts.get('evaluations', 0)
    return acc.result()


def tilde_match(pat, text):
    """wildcard match with Excel's escapes: ~* ~? ~~ are the literal characters * ? ~"""
    rx, i = '', 0
    while i < len(pat):
        ch = pat[i]
        if ch == '~' and i + 1 < len(pat) and pat[i + 1] in '*?~':
            rx += re.escape(pat[i + 1])
            i += 2
            continue
        rx += '.*' if ch == '*' else '.' if ch == '?' else re.escape(ch)
        i += 1
    return re.fullmatch(rx, text, re.I | re.S) is not None


TILDE_CELLS = ['a?c', 'abc', 'a*c', 'a~c', '?', '*', 'x?', 'why?', 'why?x', '5*2', '~', 'a~?c']
TILDE_CRITERIA = ['a~?c', '~?', '*~?', '*~?*', '~?*', '~**', '*~*', '*~**', 'a~*c', '~~', 'a~~c', 'why~?*', '5~**', '*~~*', 'a~??c', '?~?', 'a~?*',
                  '=~?', '=*~?*', '=a~*c']


def work_extra(job):
    """(a) tilde escapes in wildcard criteria; (b) criteria ranges of equal cell count but different shape are an error
    value, never a number; (c) a criterion given twice (same range, or a second range holding the same values) selects
    what it selects once"""
    acc = Acc()
    ev = feval.Evaluator()
    n = len(TILDE_CELLS)
    env0 = {f'A{i + 1}': c for i, c in enumerate(TILDE_CELLS)}
    env0.update({f'B{i + 1}': 2 ** i for i in range(n)})
    rng, vrng = f'A1:A{n}', f'B1:B{n}'
    for crit in TILDE_CRITERIA:
        pat = crit[1:] if crit.startswith('=') else crit
        for neg in (False, True):
            k1 = ('<>' + pat) if neg else crit
            want = [i for i, c in enumerate(TILDE_CELLS) if tilde_match(pat, c) != neg]
            env = dict(env0, K1=k1)
            for fn, f in (('COUNT', f'=COUNTIF({rng},K1)'), ('COUNT', f'=COUNTIFS({rng},K1)'), ('SUM', f'=SUMIF({rng},K1,{vrng})'),
                          ('SUM', f'=SUMIFS({vrng},{rng},K1)'), ('MAX', f'=MAXIFS({vrng},{rng},K1)')):
                o = ev.run(f, env)
                acc.add('evaluations')
                acc.add('states')
                acc.add('distinct_nontrivial')
                exp = len(want) if fn == 'COUNT' else sum(2 ** i for i in want) if fn == 'SUM' else max([2 ** i for i in want] or [0])
                case = dict(kind='extra', sub='tilde', fn=f.split('(')[0][1:], formula=f, crit=k1)
                if o[0] != 'ok':
                    acc.violation(dict(case, verdict='raised'), f'{f} over {TILDE_CELLS}, criterion {k1!r} raised {o[1]}: {o[2][-100:]}')
                elif not W.veq(o[1], exp):
                    acc.violation(dict(case, verdict='wrong-selection', observed=jsonable(o[1]), expected=exp),
                                  f'{f} over {TILDE_CELLS}, criterion {k1!r} = {o[1]!r}, expected {exp!r} (positions {want}: ~* ~? ~~ are literal characters)')
    # (b) same number of cells, different shape
    env = {}
    for i, a in enumerate('ABCDEF'):
        for r_ in range(1, 7):
            env[f'{a}{r_}'] = (i + 1) * 10 + r_
    shapes = [('A1:A3', 'B1:D1'), ('B1:D1', 'A1:A3'), ('A1:B3', 'C1:E2'), ('C1:E2', 'A1:B3'), ('A1:A6', 'B1:C3'), ('A1:F1', 'A2:B4'),
              ('A1:A4', 'B1:C2'), ('B1:C2', 'A1:D1')]
    for ra, rb in shapes:
        for c1, c2 in (('>0', '>0'), ('>1', '>10'), ('<>x', '>0')):
            env.update(K1=c1, K2=c2)
            for f in (f'=COUNTIFS({ra},K1,{rb},K2)', f'=SUMIFS({rb},{ra},K1)', f'=AVERAGEIFS({rb},{ra},K1)', f'=MAXIFS({rb},{ra},K1)',
                      f'=MINIFS({rb},{ra},K1)', f'=SUMIFS({ra},{ra},K1,{rb},K2)'):
                o = ev.run(f, env)
                acc.add('evaluations')
                acc.add('states')
                case = dict(kind='extra', sub='shape', fn=f.split('(')[0][1:], formula=f, crit=[c1, c2])
                if o[0] != 'ok':
                    acc.violation(dict(case, verdict='raised'), f'{f} (ranges of equal size, different shape) raised {o[1]}: {o[2][-100:]}')
                elif not (isinstance(o[1], str) and o[1].startswith('#')):
                    acc.violation(dict(case, verdict='number-from-mismatched-shapes', observed=jsonable(o[1])),
                                  f'{f}: the ranges have the same number of cells but different shapes, there are no common positions; got {o[1]!r} instead of an error value')
    # (c) the same criterion twice
    data = [3, 1, 'apple', 2, 3, None, 'Apple', 1]
    env = {}
    for i, v in enumerate(data):
        if v is not None:
            env[f'A{i + 1}'] = v
            env[f'C{i + 1}'] = v            # a second range holding the same values
        env[f'B{i + 1}'] = 2 ** i
    nn = len(data)
    ra, rc, rv = f'A1:A{nn}', f'C1:C{nn}', f'B1:B{nn}'
    for crit in (3, 1, '>1', '<>1', 'apple', 'a*', '<>apple', '>=3', '=3', '<>'):
        env.update(K1=crit, K2=crit)
        for once, twice_list in ((f'=COUNTIFS({ra},K1)', [f'=COUNTIFS({ra},K1,{ra},K1)', f'=COUNTIFS({ra},K1,{ra},K2)', f'=COUNTIFS({ra},K1,{rc},K1)',
                                                         f'=COUNTIFS({ra},K1,{rc},K2,{ra},K1)']),
                                 (f'=SUMIFS({rv},{ra},K1)', [f'=SUMIFS({rv},{ra},K1,{ra},K1)', f'=SUMIFS({rv},{ra},K1,{rc},K1)']),
                                 (f'=AVERAGEIFS({rv},{ra},K1)', [f'=AVERAGEIFS({rv},{ra},K1,{ra},K1)', f'=AVERAGEIFS({rv},{ra},K1,{rc},K2)']),
                                 (f'=MAXIFS({rv},{ra},K1)', [f'=MAXIFS({rv},{ra},K1,{ra},K1)', f'=MAXIFS({rv},{ra},K1,{rc},K1)']),
                                 (f'=MINIFS({rv},{ra},K1)', [f'=MINIFS({rv},{ra},K1,{ra},K2)', f'=MINIFS({rv},{ra},K1,{rc},K1)'])):
            o1 = ev.run(once, env)
            acc.add('evaluations')
            for f in twice_list:
                o2 = ev.run(f, env)
                acc.add('evaluations')
                acc.add('states')
                acc.add('distinct_nontrivial')
                case = dict(kind='extra', sub='twice', fn=f.split('(')[0][1:], formula=f, crit=crit)
                if o2[0] != 'ok':
                    acc.violation(dict(case, verdict='raised'), f'{f} with criterion {crit!r} raised {o2[1]}: {o2[2][-100:]}')
                elif o1[0] == 'ok' and not W.vclose(o1[1], o2[1], rel=1e-12, abs_=1e-12):
                    acc.violation(dict(case, verdict='criterion-twice-differs', observed=jsonable(o2[1]), expected=jsonable(o1[1])),
                                  f'{f} = {o2[1]!r} but {once} = {o1[1]!r} (data {data}, criterion {crit!r}): a criterion given twice selects what it selects once')
    acc.counts['transitions'] = acc.counts.get('evaluations', 0)
    return acc.result()


def run(ctx):
    m = 64
    m = 64 if not ctx.thorough else 256
    ctx.pmap(work_single, [((k + ctx.seed) % m, m, 4, ctx.thorough) for k in range(m)], timeout=12000)
    ctx.pmap(work_single, [(k, 16, 3 if ctx.thorough else 2, False, True) for k in range(16)], timeout=6000)
    ctx.pmap(work_multi, [(k, 32) for k in range(32)], timeout=6000)
    ctx.pmap(work_cells, [(0,)], timeout=600)
    ctx.pmap(work_extra, [(0,)], timeout=600)
    ctx.counts['traces_validated_against_impl'] = ctx.counts.get('evaluations', 0)
    ctx.extra['criteria'] = [repr(c) for c in CRITERIA]
    ctx.extra['pool'] = [repr(p) for p in POOL]
    ctx.extra['meta_pool'] = [repr(p) for p in META_POOL]
    ctx.extra['meta_criteria'] = [repr(c) for c in META_CRITERIA]


def replay(case):
    ev = feval.Evaluator()
    if case['kind'] == 'single':
        vec = case['rng']
        r, c = case['layout']
        vals = [2 ** j for j in range(len(vec))]
        env, rng = env_block(vec, r, c, 1, 1)
        env2, vrng = env_block(vals, r, c, 6, 1)
        env.update(env2)
        env['K1'] = case['crit']
        obs = ev.run(case['formula'], env)
        sel = [matches(x, case['crit']) for x in vec]
        txt = f"{case['formula']} range={vec} values={vals} K1={case['crit']!r} -> {obs[:2]!r}; predicate {sel}"
        if case['verdict'] == 'raised':
            return obs[0] != 'ok', txt
        if case['verdict'] == 'wrong-selection':
            return obs[0] != 'ok' or not W.vclose(obs[1], case['expected'], rel=1e-12, abs_=1e-12), txt
        return True, txt
    r = work_multi((0, 1)) if case['kind'] == 'multi' else work_extra((0,)) if case['kind'] == 'extra' else work_cells((0,))
    hits = [m for c, m in r['violations'] if c.get('formula') == case.get('formula') and c.get('rng') == case.get('rng')
            and c.get('crits') == case.get('crits') and c.get('a') == case.get('a') and c.get('b') == case.get('b')
            and c.get('crit') == case.get('crit')]
    return bool(hits), '\n'.join(hits[:2]) or 'no violation'
