"""C17 -- date serial numbers form Excel's 1900 calendar (walk of a day-successor model)."""
import itertools

from mc import feval, wb as W
from mc.ref import calendar as C
from mc.runner import Acc, jsonable

ID = 'C17'
LEVEL = 'model_checking'
RULE = ('the Excel 1900 calendar as a transition system (state (y,m,d,weekday), transition = next day by a month-length '
        'table with 1900 leap); the model is walked over the stated serial range and in every state YEAR/MONTH/DAY/WEEKDAY '
        'through compiled formulas equal the model, DATE(y,m,d) returns the serial, and for n > 60 the parts equal the '
        'proleptic Gregorian date 1899-12-30 + n computed independently; DATE carrying for 7 years x m,d in -40..60; '
        'EOMONTH / EDATE for month start/mid/end dates x month shifts; every second of a day through HOUR/MINUTE/SECOND; '
        'YEARFRAC symmetry over all pairs of a date pool x 5 bases; out-of-range arguments -> #NUM!, never an exception. '
        'quick: every day of 1900-1904 and 9995-9999 plus every month boundary +-1 of every year; thorough: every serial '
        'day 0..2958465. distinct_nontrivial = states at a month boundary, leap day, serial <= 61 or range end.')
ASSUMPTIONS = ['DATE whose month carries outside 1900-01..9999-12 before the day is applied is checked for totality only',
               'EDATE keeps the day clipped to the target month (Excel\'s documented behaviour); the month is forced by "shifts by whole months"']
GROUP = ('fn', 'verdict')


def val(obs):
    return obs[1] if obs[0] == 'ok' else ('exc', obs[1])


def work_days(job):
    lo, hi, boundaries_only = job
    acc = Acc()
    ev = feval.Evaluator()
    env = {}
    for n, y, m, d, wd in C.walk(lo, hi):
        if boundaries_only and not (d <= 2 or d >= 27):
            continue
        env['A1'] = n
        env['B1'], env['C1'], env['D1'] = y, m, d
        acc.add('states')
        if d <= 1 or d >= 28 or n <= 61 or n >= C.MAX_SERIAL - 1:
            acc.add('distinct_nontrivial')
        got = (val(ev.run('=YEAR(A1)', env)), val(ev.run('=MONTH(A1)', env)), val(ev.run('=DAY(A1)', env)),
               val(ev.run('=WEEKDAY(A1)', env)), val(ev.run('=DATE(B1,C1,D1)', env)))
        acc.add('evaluations', 5)
        want = (y, m, d, wd, n)
        if got != want:
            acc.violation(dict(kind='day', fn='YMD', verdict='differs-from-model', serial=n, observed=jsonable(got), expected=list(want)),
                          f'serial {n}: YEAR/MONTH/DAY/WEEKDAY/DATE = {got}, the successor model gives {want}')
        if n > 60 and C.gregorian_of_serial(n) != (y, m, d):
            acc.violation(dict(kind='day', fn='model', verdict='model-inconsistent', serial=n),
                          f'harness: the two independent calendar computations disagree at {n}')
        # fractional serials keep the day
        if d == 1 or n < 70:
            env['A1'] = n + 0.75
            g2 = (val(ev.run('=YEAR(A1)', env)), val(ev.run('=MONTH(A1)', env)), val(ev.run('=DAY(A1)', env)),
                  val(ev.run('=WEEKDAY(A1)', env)))
            acc.add('evaluations', 4)
            if g2 != (y, m, d, wd):
                acc.violation(dict(kind='day', fn='YMD', verdict='fraction-changes-day', serial=n + 0.75, observed=jsonable(g2)),
                              f'serial {n}.75: parts {g2}, expected {(y, m, d, wd)}')
    acc.counts['transitions'] = acc.counts.get('evaluations', 0)
    return acc.result()


def work_carry(job):
    years, = job
    acc = Acc()
    ev = feval.Evaluator()
    for y in years:
        for m in range(-40, 61):
            for d in range(-40, 61):
                env = {'B1': y, 'C1': m, 'D1': d}
                obs = ev.run('=DATE(B1,C1,D1)', env)
                acc.add('evaluations')
                acc.add('states')
                acc.add('distinct_nontrivial', int(not (1 <= m <= 12 and 1 <= d <= 28)))
                exp = C.date_serial(y, m, d)
                case = dict(kind='carry', fn='DATE', y=y, m=m, d=d)
                if obs[0] != 'ok':
                    acc.violation(dict(case, verdict='raised', exc=obs[1]), f'=DATE({y},{m},{d}) raised {obs[1]}: {obs[2][-80:]}')
                elif exp is not None and obs[1] != exp:
                    acc.violation(dict(case, verdict='wrong-serial', observed=jsonable(obs[1]), expected=exp),
                                  f'=DATE({y},{m},{d}) = {obs[1]!r}, carrying in the model gives {exp!r}')
    acc.counts['transitions'] = acc.counts.get('evaluations', 0)
    return acc.result()


def work_months(job):
    years, shifts = job
    acc = Acc()
    ev = feval.Evaluator()
    tbl = C.first_of_month_table()
    for y in years:
        for m in range(1, 13):
            first = tbl[(y, m)]
            ml = C.mlen(y, m)
            for d in sorted({1, 15, 28, 29, 30, 31, ml} & set(range(1, ml + 1))):
                n = first + d - 1
                for k in shifts:
                    months = y * 12 + (m - 1) + k
                    ty, tm = divmod(months, 12)
                    tm += 1
                    env = {'A1': n, 'B1': k}
                    oe, od = ev.run('=EOMONTH(A1,B1)', env), ev.run('=EDATE(A1,B1)', env)
                    acc.add('evaluations', 2)
                    acc.add('states')
                    acc.add('distinct_nontrivial', int(d > 28 or (ty, tm) == (1900, 2)))
                    if (ty, tm) in tbl:
                        e_exp = tbl[(ty, tm)] + C.mlen(ty, tm) - 1
                        d_exp = tbl[(ty, tm)] + min(d, C.mlen(ty, tm)) - 1
                    else:
                        e_exp = d_exp = '#NUM!'
                    for fn, o, exp in (('EOMONTH', oe, e_exp), ('EDATE', od, d_exp)):
                        case = dict(kind='months', fn=fn, serial=n, date=[y, m, d], shift=k)
                        if o[0] != 'ok':
                            acc.violation(dict(case, verdict='raised', exc=o[1]),
                                          f'={fn}({n} [{y}-{m}-{d}], {k}) raised {o[1]}: {o[2][-80:]}')
                        elif o[1] != exp:
                            acc.violation(dict(case, verdict='wrong-serial', observed=jsonable(o[1]), expected=exp),
                                          f'={fn}({n} [{y}-{m:02d}-{d:02d}], {k}) = {o[1]!r}, the model gives {exp!r} '
                                          f'(target month {ty}-{tm:02d})')
    acc.counts['transitions'] = acc.counts.get('evaluations', 0)
    return acc.result()


def work_seconds(job):
    """every second of the day, exactly and displaced by a fraction of a second on either side of the
    half (never the tie itself, whose direction the property does not fix): the parts are those of
    the NEAREST second, carried into the minute, the hour and over midnight."""
    lo, hi, day = job[:3]
    fracs = job[3] if len(job) > 3 else (0,)
    acc = Acc()
    ev = feval.Evaluator()
    for s in range(lo, hi):
        for f in fracs:
            env = {'A1': day + (s + f) / 86400}
            got = (val(ev.run('=HOUR(A1)', env)), val(ev.run('=MINUTE(A1)', env)), val(ev.run('=SECOND(A1)', env)))
            acc.add('evaluations', 3)
            acc.add('states')
            acc.add('distinct_nontrivial', int(s % 60 in (0, 59)))
            n = (s + (1 if f > 0.5 else 0)) % 86400
            want = (n // 3600, n // 60 % 60, n % 60)
            if got != want:
                case = dict(kind='seconds', fn='HMS', verdict='wrong-decomposition', second=s, day=day, observed=jsonable(got),
                            expected=list(want))
                if f:
                    case['frac'] = f
                acc.violation(case, f'serial {day}+{s + f}/86400: HOUR/MINUTE/SECOND = {got}, expected {want}')
    acc.counts['transitions'] = acc.counts.get('evaluations', 0)
    return acc.result()


def work_yearfrac(job):
    acc = Acc()
    ev = feval.Evaluator()
    tbl = C.first_of_month_table()
    pool = sorted({1, 59, 60, 61, 366, 367, C.MAX_SERIAL, C.MAX_SERIAL - 365} |
                  {tbl[(y, m)] + d for y in (1900, 1904, 1999, 2000, 2001, 2100) for m in (1, 2, 3, 12) for d in (0, 27, 28, 29, 30)
                   if d < C.mlen(y, m)})
    for a, b in itertools.combinations(pool, 2):
        for basis in range(5):
            env = {'A1': a, 'B1': b, 'C1': basis}
            x, y = ev.run('=YEARFRAC(A1,B1,C1)', env), ev.run('=YEARFRAC(B1,A1,C1)', env)
            acc.add('evaluations', 2)
            acc.add('states')
            acc.add('distinct_nontrivial')
            case = dict(kind='yearfrac', fn='YEARFRAC', a=a, b=b, basis=basis)
            if x[0] != 'ok' or y[0] != 'ok':
                acc.violation(dict(case, verdict='raised'), f'YEARFRAC({a},{b},{basis}) -> {x[:2]!r} / swapped {y[:2]!r}')
            elif not W.veq(x[1], y[1]):
                acc.violation(dict(case, verdict='not-symmetric', observed=jsonable(x[1]), other=jsonable(y[1])),
                              f'YEARFRAC({a},{b},{basis}) = {x[1]!r} but YEARFRAC({b},{a},{basis}) = {y[1]!r}')
            elif not isinstance(x[1], (int, float)):
                acc.violation(dict(case, verdict='not-a-fraction', observed=jsonable(x[1])), f'YEARFRAC({a},{b},{basis}) = {x[1]!r}')
    acc.counts['transitions'] = acc.counts.get('evaluations', 0)
    return acc.result()


def work_range(job):
    acc = Acc()
    ev = feval.Evaluator()
    for f, env in [('=YEAR(A1)', {'A1': x}) for x in (-1, -0.5, C.MAX_SERIAL + 1, C.MAX_SERIAL + 1.5, 1e7, 1e12)] + \
                  [('=MONTH(A1)', {'A1': x}) for x in (-1, C.MAX_SERIAL + 1, 1e9)] + \
                  [('=DAY(A1)', {'A1': x}) for x in (-1, C.MAX_SERIAL + 1, 1e9)] + \
                  [('=WEEKDAY(A1)', {'A1': -1})] + \
                  [('=DATE(A1,B1,C1)', {'A1': y, 'B1': m, 'C1': d}) for y, m, d in
                   ((10000, 1, 1), (-1, 1, 1), (9999, 12, 32), (9999, 13, 1), (9999, 12, 400), (1900, 1, -1), (1900, -5, 1))] + \
                  [('=EOMONTH(A1,B1)', {'A1': a, 'B1': b}) for a, b in
                   ((1, -1), (1, -2), (40, -5), (C.MAX_SERIAL, 0), (C.MAX_SERIAL, 1), (C.MAX_SERIAL - 20, 0), (-1, 0), (100, 1e6))] + \
                  [('=EDATE(A1,B1)', {'A1': a, 'B1': b}) for a, b in
                   ((1, -1), (31, -12), (C.MAX_SERIAL, 1), (C.MAX_SERIAL, 0), (-1, 0), (100, 1e6))] + \
                  [('=HOUR(A1)', {'A1': -0.5}), ('=YEARFRAC(A1,B1,C1)', {'A1': -1, 'B1': 5, 'C1': 0}),
                   ('=YEARFRAC(A1,B1,C1)', {'A1': 1, 'B1': C.MAX_SERIAL + 1, 'C1': 1}), ('=YEARFRAC(A1,B1,C1)', {'A1': 1, 'B1': 5, 'C1': 7})]:
        obs = ev.run(f, env)
        acc.add('evaluations')
        acc.add('states')
        acc.add('distinct_nontrivial')
        case = dict(kind='range', fn=f.split('(')[0][1:], formula=f, env=env)
        if obs[0] != 'ok':
            acc.violation(dict(case, verdict='raised', exc=obs[1]), f'{f} with {env} raised {obs[1]}: {obs[2][-100:]}')
            continue
        in_range_ok = f.startswith(('=EOMONTH', '=EDATE')) and env['A1'] in (C.MAX_SERIAL, C.MAX_SERIAL - 20) and env['B1'] == 0
        if in_range_ok:
            if obs[1] != C.MAX_SERIAL:
                acc.violation(dict(case, verdict='wrong-serial', observed=jsonable(obs[1]), expected=C.MAX_SERIAL),
                              f'{f} with {env} = {obs[1]!r}, expected {C.MAX_SERIAL} (December 9999)')
        elif obs[1] != '#NUM!':
            acc.violation(dict(case, verdict='not-num-error', observed=jsonable(obs[1])),
                          f'{f} with {env} = {obs[1]!r}; the result is outside the calendar, expected #NUM!')
    acc.counts['transitions'] = acc.counts.get('evaluations', 0)
    return acc.result()


ERRS = ('#NUM!', '#VALUE!', '#N/A', '#DIV/0!', '#REF!', '#NAME?', '#NULL!')
BAD_SERIALS = [-1e300, -1e10, -1, -0.5, -1e-9, C.MAX_SERIAL + 1, C.MAX_SERIAL + 1.5, C.MAX_SERIAL + 2, 1e7, 1e10, 1e12, 1e300]
BAD_SHIFTS = [-1e300, -1e10, -10 ** 6, 10 ** 6, 1e10, 1e300, float('inf'), float('-inf')]
INFS = [float('inf'), float('-inf')]
ODD_TYPES = ['45000', '1', 'abc', '', ' ', True, False, None, '#N/A', '#DIV/0!', '12:00', '1900-01-01',
             'nan', 'inf', '-inf', 'Infinity', '1e400', '1:', ':', ':00', '1::00', '1:00:', '0:0:', '25:00', '1:60', '12:30 PM', '1:00PM']
FUNCS = [('YEAR', [45000]), ('MONTH', [45000]), ('DAY', [45000]), ('WEEKDAY', [45000]), ('HOUR', [0.5]), ('MINUTE', [0.5]),
         ('SECOND', [0.5]), ('EDATE', [45000, 1]), ('EOMONTH', [45000, 1]), ('DATE', [2000, 1, 1]), ('YEARFRAC', [45000, 45100, 0])]


def work_offgrid(job):
    """every argument position of every function x (values outside the calendar, values of every other type,
    in-range values with a fraction): nothing raises; a result outside the calendar is #NUM!; the date part of a
    serial with a time-of-day fraction is that of the day."""
    acc = Acc()
    ev = feval.Evaluator()

    def call(fn, args):
        env = {f'{chr(65 + i)}1': a for i, a in enumerate(args)}
        f = f"={fn}({','.join(f'{chr(65 + i)}1' for i in range(len(args)))})"
        acc.add('evaluations')
        acc.add('states')
        acc.add('distinct_nontrivial')
        return f, env, ev.run(f, env)

    for fn, base in FUNCS:
        for pos in range(len(base)):
            if fn in ('HOUR', 'MINUTE', 'SECOND'):
                pool = [(v, '#NUM!') for v in BAD_SERIALS]          # before 1900-01-00 or past 9999-12-31
            elif fn == 'DATE':
                pool = [(v, '#NUM!') for v in ([-1, -0.5, 10000, 10400, 1e10, 1e300, -1e300] if pos == 0 else
                                               ([-10 ** 6, 10 ** 6, 99999 * 12, -2000 * 12] if pos == 1 else [-10 ** 6, 10 ** 7]) + [-1e10, 1e10, -1e300, 1e300])]
            elif fn == 'YEARFRAC' and pos == 2:
                pool = [(v, '#NUM!') for v in (-1, 5, 7, 1e10, -1e300, float('inf'), float('-inf'))]
            elif pos == 0 or fn == 'YEARFRAC':
                pool = [(v, '#NUM!') for v in BAD_SERIALS]
            else:
                pool = [(v, '#NUM!') for v in BAD_SHIFTS]
            pool += [(v, 'any') for v in ODD_TYPES + (INFS if (fn, pos) not in (('EDATE', 1), ('EOMONTH', 1), ('YEARFRAC', 2)) else [])]
            for v, want in pool:
                args = list(base)
                args[pos] = v
                f, env, o = call(fn, args)
                case = dict(kind='offgrid', fn=fn, pos=pos, arg=jsonable(v), atype=type(v).__name__)
                if o[0] != 'ok':
                    acc.violation(dict(case, verdict='raised', exc=o[1]), f'{f} with {env} raised {o[1]}: {o[2][-100:]}')
                elif isinstance(o[1], bool) or not (isinstance(o[1], (int, float)) or o[1] in ERRS):
                    acc.violation(dict(case, verdict='not-a-number-or-error', observed=jsonable(o[1])),
                                  f'{f} with {env} = {o[1]!r}: neither a number nor an error value')
                elif want == '#NUM!' and o[1] != '#NUM!':
                    acc.violation(dict(case, verdict='not-num-error', observed=jsonable(o[1])),
                                  f'{f} with {env} = {o[1]!r}; the argument is outside the calendar, expected #NUM!')
                elif want is None and isinstance(o[1], (int, float)) and not (0 <= o[1] <= 59):
                    acc.violation(dict(case, verdict='part-out-of-range', observed=jsonable(o[1])), f'{f} with {env} = {o[1]!r}')
    for y in (1900, 0, 2024, 1):
        for m in range(-12 * (y if y >= 1900 else y + 1900) - 14, -12 * (y if y >= 1900 else y + 1900) + 14):
            for d in (1, 15, 29, -400):
                f, env, o = call('DATE', [y, m, d])
                case = dict(kind='offgrid', fn='DATE', pos=1, arg=m, atype='int', year=y, day=d)
                if o[0] != 'ok':
                    acc.violation(dict(case, verdict='raised', exc=o[1]), f'=DATE({y},{m},{d}) raised {o[1]}: {o[2][-100:]}')
                    continue
                yy = (y if y >= 1900 else y + 1900) + (m - 1) // 12
                if yy < 1899 and o[1] != '#NUM!':
                    acc.violation(dict(case, verdict='not-num-error', observed=jsonable(o[1])),
                                  f'=DATE({y},{m},{d}) = {o[1]!r}; month {m} carries the year to {yy}, expected #NUM!')
    # month shifts that carry the year to 0 or below, for every residue mod 12 (the month lengths of such years are never needed)
    for n, (y0, m0) in ((100, (1900, 4)), (45000, (2023, 3)), (2958465, (9999, 12))):
        for back in (0, 1, 600, 1900):
            centre = -((y0 - 1 + back) * 12 + m0)
            for k in range(centre - 14, centre + 14):
                for fn in ('EDATE', 'EOMONTH'):
                    f, env, o = call(fn, [n, k])
                    case = dict(kind='offgrid', fn=fn, pos=1, arg=k, atype='int', serial=n)
                    yy = (y0 * 12 + m0 - 1 + k) // 12
                    if o[0] != 'ok':
                        acc.violation(dict(case, verdict='raised', exc=o[1]), f'={fn}({n},{k}) raised {o[1]}: {o[2][-100:]}')
                    elif yy < 1900 and o[1] != '#NUM!':
                        acc.violation(dict(case, verdict='not-num-error', observed=jsonable(o[1])),
                                      f'={fn}({n},{k}) = {o[1]!r}; the shift carries the year to {yy}, expected #NUM!')
    # a time of day on top of the date: the date parts are those of the day
    for n in [0, 1, 58, 59, 60, 61, 365, 366, 367, 45000, 73050, C.MAX_SERIAL - 1, C.MAX_SERIAL]:
        for fr in (0.25, 0.5, 0.999):
            for fn in ('YEAR', 'MONTH', 'DAY', 'WEEKDAY'):
                f, env, o = call(fn, [n + fr])
                _, _, o0 = call(fn, [n])
                if o[:2] != o0[:2]:
                    acc.violation(dict(kind='offgrid', fn=fn, pos=0, arg=n + fr, atype='float', verdict='fraction-changes-date',
                                       observed=jsonable(o[:2]), expected=jsonable(o0[:2])),
                                  f'={fn}({n + fr}) -> {o[:2]!r} but ={fn}({n}) -> {o0[:2]!r}')
            for fn in ('EDATE', 'EOMONTH'):
                for k in (-13, -1, 0, 1, 13):
                    f, env, o = call(fn, [n + fr, k])
                    _, _, o0 = call(fn, [n, k])
                    if o[:2] != o0[:2]:
                        acc.violation(dict(kind='offgrid', fn=fn, pos=0, arg=n + fr, atype='float', shift=k, verdict='fraction-changes-date',
                                           observed=jsonable(o[:2]), expected=jsonable(o0[:2])),
                                      f'={fn}({n + fr},{k}) -> {o[:2]!r} but ={fn}({n},{k}) -> {o0[:2]!r}')
                    # a fractional shift is a shift by an adjacent whole number of months
                    f, env, o = call(fn, [n, k + fr])
                    _, _, o1 = call(fn, [n, k + 1])
                    if o[0] != 'ok' or o[:2] not in (o0[:2], o1[:2]):
                        acc.violation(dict(kind='offgrid', fn=fn, pos=1, arg=k + fr, atype='float', serial=n, verdict='fractional-shift',
                                           observed=jsonable(o[:2]), expected=jsonable([o0[1], o1[1]])),
                                      f'={fn}({n},{k + fr}) -> {o[:2]!r}: neither the shift by {k} ({o0[1]!r}) nor by {k + 1} ({o1[1]!r})')
    acc.counts['transitions'] = acc.counts.get('evaluations', 0)
    return acc.result()


def run(ctx):
    tbl = C.first_of_month_table()
    jobs = []
    if ctx.thorough:
        step = 25000
        for lo in range(0, C.MAX_SERIAL + 1, step):
            jobs.append((lo, min(lo + step - 1, C.MAX_SERIAL), False))
    else:
        jobs.append((0, tbl[(1905, 1)], False))
        jobs.append((tbl[(9995, 1)], C.MAX_SERIAL, False))
        step = 250000
        for lo in range(tbl[(1905, 1)], tbl[(9995, 1)], step):
            jobs.append((lo, min(lo + step - 1, tbl[(9995, 1)]), True))
    k = ctx.seed % len(jobs)
    ctx.pmap(work_days, jobs[k:] + jobs[:k], timeout=6000)
    years = [1900, 1901, 1904, 1999, 2000, 2100, 9999]
    ctx.pmap(work_carry, [([y],) for y in years], timeout=3000)
    shifts = list(range(-1200, 1201)) if ctx.thorough else sorted(set(range(-26, 27)) | {-1200, -1199, -120, -49, -48, 48, 49, 120, 1200})
    yrs = [1900, 1901, 1902, 1903, 1904, 1905, 1999, 2000, 2001, 9998, 9999]
    ctx.pmap(work_months, [([y], shifts) for y in yrs], timeout=6000)
    # Excel's calendar does not repeat with the Gregorian 400-year cycle (1900 is a leap year in it; 2300, 2700, 9900 at
    # the same place of the cycle are not): those years together with 1900 in ONE brand-new process, in both orders
    cyc = [1900, 2300, 2700, 9900, 2100, 2000, 2400, 1904]
    ctx.fresh(work_months, [(cyc, [-2, -1, 0, 1, 2, 12]), (cyc[::-1], [-2, -1, 0, 1, 2, 12]), ([2300, 1900], [1, 0, -1]), ([1900, 2300], [1, 0, -1])])
    fracs = (0, 0.25, 0.49, 0.51, 0.75) if ctx.thorough else (0, 0.4, 0.6)
    ctx.pmap(work_seconds, [(s, min(s + 5400, 86400), 0, fracs) for s in range(0, 86400, 5400)], timeout=3000)
    # the same seconds on top of a date part (the rounding must survive a large integer part)
    for day in ([45000, 36526, 61, 2958464] if ctx.thorough else [45000, 2958464]):
        ctx.pmap(work_seconds, [(s, min(s + 5400, 86400), day, fracs) for s in range(0, 86400, 5400)], timeout=3000)
    ctx.pmap(work_yearfrac, [(0,)], timeout=3000)
    ctx.pmap(work_range, [(0,)], timeout=600)
    ctx.pmap(work_offgrid, [(0,)], timeout=600)
    ctx.sample(dict(state=[60, 1900, 2, 29, 4], note='serial 60 is the fictitious 1900-02-29'))
    ctx.sample(dict(state=[0, 1900, 1, 0, 7]))
    ctx.sample(dict(formula='=EOMONTH(1,1)', expected=60))
    ctx.counts['traces_validated_against_impl'] = ctx.counts.get('evaluations', 0)
    ctx.extra['serial_range'] = 'every serial 0..2958465' if ctx.thorough else '1900-1904, 9995-9999 complete; month boundaries (days <=2, >=27) of every year'


def replay(case):
    ev = feval.Evaluator()
    k = case['kind']
    if k == 'day':
        r = work_days((int(case['serial']), int(case['serial']), False))
    elif k == 'carry':
        obs = ev.run('=DATE(B1,C1,D1)', {'B1': case['y'], 'C1': case['m'], 'D1': case['d']})
        exp = C.date_serial(case['y'], case['m'], case['d'])
        bad = obs[0] != 'ok' or (exp is not None and obs[1] != exp)
        return bad, f"=DATE({case['y']},{case['m']},{case['d']}) -> {obs[:2]!r}; model {exp!r}"
    elif k == 'months':
        y = case['date'][0]
        r = work_months(([y], [case['shift']]))
        r['violations'] = [(c, m) for c, m in r['violations'] if c['serial'] == case['serial'] and c['fn'] == case['fn']]
    elif k == 'seconds':
        r = work_seconds((case['second'], case['second'] + 1, case.get('day', 0), (case.get('frac', 0),)))
    elif k == 'offgrid':
        r = work_offgrid((0,))
        r['violations'] = [(c, m) for c, m in r['violations'] if all(c.get(x) == case.get(x) for x in ('fn', 'pos', 'arg', 'atype', 'verdict', 'shift'))]
    elif k == 'yearfrac':
        r = work_yearfrac((0,))
        r['violations'] = [(c, m) for c, m in r['violations'] if (c['a'], c['b'], c['basis']) == (case['a'], case['b'], case['basis'])]
    else:
        r = work_range((0,))
        r['violations'] = [(c, m) for c, m in r['violations'] if c['formula'] == case['formula'] and c['env'] == case['env']]
    hits = [m for c, m in r['violations']]
    return bool(hits), '\n'.join(hits[:3]) or 'no violation'
