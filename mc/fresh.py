"""fresh-process loader: python -m mc.fresh <saved model path> <json list of cells> -> one JSON line"""
import json
import logging
import sys

logging.disable(logging.CRITICAL)
from mc.props.c03 import load_and_dump   # noqa: E402

print(json.dumps(load_and_dump(sys.argv[1], json.loads(sys.argv[2]))))
