"""Runner: accumulation of coverage counts, violations, evidence, replay files.

Every property module exposes
    ID, LEVEL, RULE, ASSUMPTIONS
    run(ctx)              -- enumerate, call ctx.pmap / ctx.add / ctx.violation
    replay(case) -> (reproduced: bool, text)
Worker functions (top level, picklable) receive one job and return Acc.result().
"""
import collections
import hashlib
import json
import multiprocessing as mp
import os
import signal
import subprocess
import sys
import time
import traceback

VERIF = os.path.dirname(os.path.dirname(os.path.abspath(__file__)))
NPROC = int(os.environ.get('VERIF_NPROC', '16'))
MAX_REPLAYS = 25
MAX_SAMPLES = 10


def jsonable(x):
    """Turn harness values into JSON (type-tagged where python would conflate)."""
    if isinstance(x, dict):
        return {str(k): jsonable(v) for k, v in x.items()}
    if isinstance(x, (list, tuple)):
        return [jsonable(v) for v in x]
    if isinstance(x, bool) or x is None or isinstance(x, (int, str)):
        return x
    if isinstance(x, float):
        if x != x or x in (float('inf'), float('-inf')):
            return repr(x)
        return x
    return repr(x)


def digest(case):
    return hashlib.sha1(json.dumps(jsonable(case), sort_keys=True).encode()).hexdigest()[:16]


class Acc:
    """Accumulator used inside workers and by the parent context."""

    def __init__(self):
        self.counts = collections.Counter()
        self.samples = []
        self.violations = []      # (case, msg)
        self.outcomes = set()     # small strings: distinct observed outcomes
        self.notes = {}

    def add(self, name, n=1):
        self.counts[name] += n

    def sample(self, obj):
        if len(self.samples) < MAX_SAMPLES:
            self.samples.append(jsonable(obj))

    def outcome(self, o):
        if len(self.outcomes) < 5000:
            self.outcomes.add(o if isinstance(o, str) else repr(o))

    def violation(self, case, msg):
        """violations matching an open known finding are counted and only a few of them kept, so that they can never
        crowd a new violation out of the (bounded) list"""
        self.counts['_violations_raw'] += 1
        case = jsonable(case)
        from mc import findings
        try:
            kid = findings.match_open(case)
        except Exception:
            kid = None
        if kid:
            self.counts['_known:' + kid] += 1
            if self.counts['_known:' + kid] <= 3:
                self.violations.append((case, str(msg)))
            return
        self.counts['_new_kept'] += 1
        if self.counts['_new_kept'] <= 400:
            self.violations.append((case, str(msg)))

    def result(self):
        return dict(counts=dict(self.counts), samples=self.samples,
                    violations=self.violations, outcomes=sorted(self.outcomes),
                    notes=self.notes)


class JobTimeout(Exception):
    pass


def _alarm(signum, frame):
    raise JobTimeout()


def _run_job(args):
    fn_mod, fn_name, job, timeout = args
    import importlib
    fn = getattr(importlib.import_module(fn_mod), fn_name)
    signal.signal(signal.SIGALRM, _alarm)
    signal.alarm(timeout)
    t0 = time.time()
    try:
        res = fn(job)
        res['wall'] = time.time() - t0
        res['job'] = repr(job)[:160]
        return res
    except JobTimeout:
        a = Acc()
        a.add('_job_timeouts')
        a.notes['timeout_job'] = repr(job)[:300]
        return a.result()
    except Exception:
        a = Acc()
        a.add('_job_errors')
        a.notes['job_error'] = traceback.format_exc()[-1500:] + ' JOB=' + repr(job)[:300]
        return a.result()
    finally:
        signal.alarm(0)


class Ctx(Acc):
    def __init__(self, mod, tier, seed):
        super().__init__()
        self.mod = mod
        self.pid = mod.ID
        self.tier = tier
        self.seed = seed
        self.t0 = time.time()
        self.extra = {}
        self.harness_errors = []

    @property
    def thorough(self):
        return self.tier == 'thorough'

    def merge(self, res):
        if 'wall' in res:
            self.slow = sorted(getattr(self, 'slow', []) + [(round(res['wall'], 1), res.get('job', ''))], reverse=True)[:4]
        for k, v in res['counts'].items():
            self.counts[k] += v
        for s in res['samples']:
            if len(self.samples) < MAX_SAMPLES:
                self.samples.append(s)
        for v in res['violations']:
            if len(self.violations) < 20000:
                self.violations.append(tuple(v))
        for o in res['outcomes']:
            if len(self.outcomes) < 20000:
                self.outcomes.add(o)
        for k, v in res['notes'].items():
            if k in ('job_error', 'timeout_job'):
                self.harness_errors.append(f'{k}: {v}')
            else:
                self.notes[k] = v

    def pmap(self, fn, jobs, timeout=600, chunksize=1):
        """Run fn(job) for each job on the process pool and merge the results in job order."""
        jobs = list(jobs)
        args = [(fn.__module__, fn.__name__, j, timeout) for j in jobs]
        if NPROC <= 1 or len(jobs) <= 1:
            for a in args:
                self.merge(_run_job(a))
            return
        ctx = mp.get_context('fork')
        with ctx.Pool(min(NPROC, len(jobs))) as pool:
            for res in pool.imap(_run_job, args, chunksize):
                self.merge(res)

    def fresh(self, fn, jobs, timeout=600):
        """Run fn(job) for each (JSON-able) job in a brand-new interpreter each and merge the results."""
        import concurrent.futures

        def one(job):
            cmd = [sys.executable, '-m', 'mc.freshjob', fn.__module__, fn.__name__, json.dumps(jsonable(job))]
            try:
                r = subprocess.run(cmd, capture_output=True, text=True, timeout=timeout, cwd=VERIF)
            except subprocess.TimeoutExpired:
                a = Acc()
                a.add('_job_timeouts')
                a.notes['timeout_job'] = repr(job)[:300]
                return a.result()
            for line in r.stdout.splitlines():
                if line.startswith('FRESHJOB-RESULT '):
                    res = json.loads(line[len('FRESHJOB-RESULT '):])
                    res['violations'] = [tuple(v) for v in res['violations']]
                    return res
            a = Acc()
            a.add('_job_errors')
            a.notes['job_error'] = (r.stderr or r.stdout)[-1500:] + ' JOB=' + repr(job)[:300]
            return a.result()
        with concurrent.futures.ThreadPoolExecutor(max(1, min(NPROC, len(jobs)))) as ex:
            for res in ex.map(one, list(jobs)):
                self.merge(res)

    # ------------------------------------------------------------------
    def finish(self):
        from mc import findings
        wall = time.time() - self.t0
        known, new = findings.classify(self.pid, self.violations)
        known_tot = {entry: max(len(cases), int(self.counts.get('_known:' + entry.split(':', 1)[0], 0))) for entry, cases in known.items()}
        for entry, n_cases in known_tot.items():
            print(f'KNOWN-FINDING: property={self.pid} {entry} ({n_cases} case(s) this run)')
        for k in [k for k in self.counts if k.startswith('_known:') or k == '_new_kept']:
            self.counts.pop(k)
        seen = set()
        alt = os.environ.get('VERIF_EVIDENCE_DIR')
        rdir = os.path.join(alt, 'replays', self.pid) if alt else os.path.join(VERIF, 'replays', self.pid)
        n_new = 0
        for case, msg in new:
            d = digest(case)
            if d in seen:
                continue
            seen.add(d)
            n_new += 1
            if n_new <= MAX_REPLAYS:
                os.makedirs(rdir, exist_ok=True)
                path = os.path.join(rdir, d + '.json')
                with open(path, 'w') as f:
                    json.dump(dict(property=self.pid, case=case, message=msg), f, indent=1, sort_keys=True)
                print(f'VIOLATION property={self.pid} replay={path}')
                print(f'   {msg[:400]}')
        if n_new > MAX_REPLAYS:
            print(f'   ... and {n_new - MAX_REPLAYS} further distinct violations of {self.pid} (not written)')
        if os.environ.get('VERIF_DEBUG') and new:
            keys = getattr(self.mod, 'GROUP', ('kind',))
            groups = collections.OrderedDict()
            for case, msg in new:
                groups.setdefault(tuple(str(case.get(k)) for k in keys), []).append(msg)
            print('--- grouped new violations by', keys)
            for g, msgs in sorted(groups.items(), key=lambda x: -len(x[1])):
                print(f'{len(msgs):6d} {g}  e.g. {msgs[0][:300]}')
        raw = self.counts.pop('_violations_raw', 0)
        for e in self.harness_errors[:5]:
            print('HARNESS-ERROR', e, file=sys.stderr)
        counts = dict(self.counts)
        cov = dict(
            evaluations=int(counts.get('evaluations', 0)),
            distinct_nontrivial=int(counts.get('distinct_nontrivial', 0)),
            rule=self.mod.RULE,
            samples=self.samples or [],
            states=int(counts.get('states', counts.get('evaluations', 0))),
            transitions=int(counts.get('transitions', counts.get('evaluations', 0))),
            traces_validated_against_impl=int(counts.get(
                'traces_validated_against_impl', counts.get('transitions', counts.get('evaluations', 0)))),
            exhaustive=bool(self.extra.get('exhaustive', True)) and not self.harness_errors,
            distinct_outcomes=len(self.outcomes),
            counts={k: v for k, v in sorted(counts.items())},
            known_findings_seen=dict(known_tot),
            violations_raw=raw,
        )
        cov.update({k: jsonable(v) for k, v in self.extra.items() if k != 'exhaustive'})
        if getattr(self, 'slow', None):
            cov['slowest_jobs'] = [list(x) for x in self.slow]
        if self.notes:
            cov['notes'] = jsonable(self.notes)
        if self.harness_errors:
            cov['harness_errors'] = self.harness_errors[:5]
        ev = dict(property_id=self.pid, tier=self.tier, seed=self.seed, level=self.mod.LEVEL,
                  coverage=cov, assumptions=list(self.mod.ASSUMPTIONS), wall_s=round(wall, 2),
                  violations=n_new)
        path = os.path.join(alt or os.path.join(VERIF, 'evidence'), self.pid + '.json')
        os.makedirs(os.path.dirname(path), exist_ok=True)
        with open(path, 'w') as f:
            json.dump(ev, f, indent=1, sort_keys=True)
        ok_schema = validate_evidence(path)
        print(f'{self.pid} tier={self.tier} seed={self.seed} wall={wall:.1f}s evaluations={cov["evaluations"]} '
              f'states={cov["states"]} transitions={cov["transitions"]} nontrivial={cov["distinct_nontrivial"]} '
              f'outcomes={cov["distinct_outcomes"]} new_violations={n_new} known={sum(known_tot.values())}')
        if self.harness_errors:
            print(f'{self.pid}: {len(self.harness_errors)} harness error(s)/timeouts; the run is NOT complete', file=sys.stderr)
            return 2
        if not ok_schema:
            return 2
        return 1 if n_new else 0


def validate_evidence(path):
    schema = os.path.join(VERIF, 'schemas', 'EVIDENCE.schema.json')
    vt = '/opt/veriftools/pyvenv/bin/python'
    if not os.path.exists(vt):
        return True
    code = ("import json,sys,jsonschema;"
            "jsonschema.validate(json.load(open(sys.argv[1])), json.load(open(sys.argv[2])))")
    env = {k: v for k, v in os.environ.items() if k not in ('PYTHONPATH', 'PYTHONHOME')}
    r = subprocess.run([vt, '-c', code, path, schema], capture_output=True, text=True, env=env)
    if r.returncode != 0:
        print('EVIDENCE-SCHEMA-ERROR', r.stderr[-600:], file=sys.stderr)
        return False
    return True
