"""Excel's 1900 date system as a transition system (deliberately dumb).

state = (serial, y, m, d, weekday) ; serial 0 = 1900-01-00 (a Saturday in Excel's numbering: WEEKDAY = 7),
successor = next day with a month-length table, Gregorian leap rule AND 1900 treated as a leap year.
"""
MAX_SERIAL = 2958465          # 9999-12-31
MDAYS = [31, 28, 31, 30, 31, 30, 31, 31, 30, 31, 30, 31]


def leap(y):
    return y == 1900 or (y % 4 == 0 and (y % 100 != 0 or y % 400 == 0))


def mlen(y, m):
    return 29 if (m == 2 and leap(y)) else MDAYS[m - 1]


def walk(start=0, stop=MAX_SERIAL):
    """yield (serial, y, m, d, weekday) for every serial in [start, stop]; walks from 0 (cheap: 3M steps)"""
    y, m, d, wd = 1900, 1, 0, 7
    n = 0
    while n <= stop:
        if n >= start:
            yield n, y, m, d, wd
        # successor
        n += 1
        wd = wd % 7 + 1
        d += 1
        if d > mlen(y, m):
            d = 1
            m += 1
            if m > 12:
                m = 1
                y += 1


_FIRST = {}


def first_of_month_table():
    """serial of day 1 of every month, built by walking the model once"""
    if not _FIRST:
        for n, y, m, d, wd in walk():
            if d == 1:
                _FIRST[(y, m)] = n
    return _FIRST


def civil_from_days(z):
    """proleptic Gregorian date of 1970-01-01 + z days (Hinnant); independent of the table above"""
    z += 719468
    era = (z if z >= 0 else z - 146096) // 146097
    doe = z - era * 146097
    yoe = (doe - doe // 1460 + doe // 36524 - doe // 146096) // 365
    y = yoe + era * 400
    doy = doe - (365 * yoe + yoe // 4 - yoe // 100)
    mp = (5 * doy + 2) // 153
    d = doy - (153 * mp + 2) // 5 + 1
    m = mp + 3 if mp < 10 else mp - 9
    return (y + 1 if m <= 2 else y), m, d


def gregorian_of_serial(n):
    """1899-12-30 + n days; 1899-12-30 is day -25569 relative to 1970-01-01"""
    return civil_from_days(n - 25569)


def date_serial(y, m, d):
    """DATE(y, m, d) with carrying, or '#NUM!'.  y already in 1900..9999."""
    tbl = first_of_month_table()
    months = y * 12 + (m - 1)
    yy, mm = divmod(months, 12)
    mm += 1
    if (yy, mm) in tbl:
        n = tbl[(yy, mm)] + (d - 1)
    elif yy >= 10000:
        # walk month by month past the end of the table
        n, cy, cm = tbl[(9999, 12)] + 31, 10000, 1
        while (cy, cm) != (yy, mm):
            n += mlen(cy, cm)
            cm += 1
            if cm > 12:
                cy, cm = cy + 1, 1
        n += d - 1
    else:
        # walk backwards from 1900-01-01 (serial 1) with the Gregorian month lengths (1899 ... are not leap)
        n, cy, cm = tbl[(1900, 1)], 1900, 1
        while (cy, cm) != (yy, mm):
            cm -= 1
            if cm < 1:
                cy, cm = cy - 1, 12
            n -= mlen(cy, cm)
        n += d - 1
    if n < 0 or n > MAX_SERIAL:
        return '#NUM!'
    return n
