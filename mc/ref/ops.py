"""Reference semantics of the Excel operators, written from the statement of C10 (deliberately dumb).

Values: int/float, str (text; the seven error strings are errors), bool, None (blank).
`apply(op, a, b)` returns the expected value, or UNPINNED where the statement does not fix it.
"""
import math
import re

ERRORS = ('#NULL!', '#DIV/0!', '#VALUE!', '#REF!', '#NAME?', '#NUM!', '#N/A')
UNPINNED = object()
NUMTEXT = re.compile(r'^[+-]?(\d+(\.\d*)?|\.\d+)([eE][+-]?\d+)?$')

ARITH = ('+', '-', '*', '/', '^')
CMP = ('=', '<>', '<', '<=', '>', '>=')


def is_err(v):
    return isinstance(v, str) and v in ERRORS


def num(v):
    """coercion for arithmetic: number, or '#VALUE!'; UNPINNED for text the statement leaves open"""
    if v is None:
        return 0
    if isinstance(v, bool):
        return int(v)
    if isinstance(v, (int, float)):
        return v
    if isinstance(v, str):
        if NUMTEXT.match(v):
            x = float(v) if ('.' in v or 'e' in v.lower()) else int(v)
            return x if math.isfinite(x) else UNPINNED       # '1e400': numeric-looking but not a number Excel can hold
        if re.fullmatch(r'[+-]?(inf|infinity|nan)', v, re.I) or ('_' in v and v.strip() == v):
            return '#VALUE!'     # words and digit separators only python's float()/int() take for numbers: other text
        if v.strip() != v or v.upper() in ('TRUE', 'FALSE'):
            return UNPINNED
        try:
            float(v)
            return UNPINNED      # anything python would parse but the strict pattern does not
        except ValueError:
            return '#VALUE!'
    return UNPINNED


def render(v):
    """Excel rendering used by & (3 not 3.0, TRUE/FALSE, blank as empty)"""
    if v is None:
        return ''
    if isinstance(v, bool):
        return 'TRUE' if v else 'FALSE'
    if isinstance(v, (int, float)):
        if float(v) == int(v) and abs(v) < 1e15:
            return str(int(v))
        return UNPINNED if abs(v) >= 1e15 or (v != 0 and abs(v) < 1e-4) else repr(float(v))
    return v


def order_key(v):
    if isinstance(v, bool):
        return (2, v)
    if isinstance(v, str):
        return (1, v.lower())
    return (0, v)


def neutral(other):
    if isinstance(other, bool):
        return False
    if isinstance(other, str):
        return ''
    return 0


def compare(op, a, b):
    if a is None and b is None:
        a = b = 0
    elif a is None:
        a = neutral(b)
    elif b is None:
        b = neutral(a)
    ka, kb = order_key(a), order_key(b)
    if ka[0] == kb[0] == 0 and a != b and '%.15g' % a == '%.15g' % b:
        return UNPINNED          # distinct doubles that agree to 15 significant digits: only the order axioms are judged
    return {'=': ka == kb, '<>': ka != kb, '<': ka < kb, '<=': ka <= kb, '>': ka > kb, '>=': ka >= kb}[op]


def apply(op, a, b=None):
    """binary op; for unary '-' call apply('neg', a); for postfix % apply('%', a)"""
    if is_err(a):
        return a
    if op not in ('neg', '%') and is_err(b):
        return b
    if op == 'neg':
        x = num(a)
        if x is UNPINNED or is_err(x):
            return x
        return -x
    if op == '%':
        x = num(a)
        if x is UNPINNED or is_err(x):
            return x
        return x / 100
    if op == '&':
        ra, rb = render(a), render(b)
        if ra is UNPINNED or rb is UNPINNED:
            return UNPINNED
        return ra + rb
    if op in CMP:
        return compare(op, a, b)
    x, y = num(a), num(b)
    if x is UNPINNED or y is UNPINNED:
        return UNPINNED
    if is_err(x):
        return x
    if is_err(y):
        return y
    if op == '+':
        return x + y
    if op == '-':
        return x - y
    if op == '*':
        return x * y
    if op == '/':
        if y == 0:
            return '#DIV/0!'
        return x / y
    if op == '^':
        if x == 0 and y == 0:
            return UNPINNED          # Excel: #NUM!; not pinned by the statement
        if x == 0 and y < 0:
            return '#DIV/0!'
        if x < 0 and float(y) != int(y):
            return '#NUM!'
        try:
            r = x ** y
        except OverflowError:
            return '#NUM!'
        return r
    raise ValueError(op)
