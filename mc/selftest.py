"""Self-tests of the machinery itself (also MANIFEST.setup_cmd): the explorer must find a seeded
staleness bug in a toy cache at depth 3 and stay silent on the correct toy; the environment is sane."""
import sys

from mc import explore
from mc.runner import Acc


class ToyCache:
    def __init__(self, buggy):
        self.a, self.cache, self.buggy = 1, None, buggy

    def get(self):
        if self.cache is None:
            self.cache = self.a + 1
        return self.cache

    def put(self, v):
        if self.buggy and v is None:      # the pycel #1 defect in miniature
            self.a = v
            return
        self.a = v
        self.cache = None


class ToyP(explore.Problem):
    ops = [('get',), ('put', 5), ('put', None)]

    def __init__(self, buggy):
        self.buggy = buggy

    def new(self):
        return ToyCache(self.buggy)

    def step(self, st, op):
        return st.get() if op[0] == 'get' else st.put(op[1])

    def check(self, st, hist, op, obs):
        if op[0] == 'get' and obs != (st.a or 0) + 1 if st.a is not None else op[0] == 'get' and obs != 1:
            return 'stale'

    def canon(self, st):
        return (st.a, st.cache)

    def case(self, hist, op, obs):
        return dict(hist=list(hist), op=op)

    def step(self, st, op):     # noqa: F811  (None + 1 guarded)
        if op[0] == 'get':
            if st.cache is None:
                st.cache = (st.a or 0) + 1
            return st.cache
        return st.put(op[1])


def main():
    ok = True
    a = Acc()
    r = explore.bfs(ToyP(False), 4, a)
    if a.violations or not r['fixpoint']:
        print('selftest: explorer raised an alarm on the correct toy', a.violations[:1], r)
        ok = False
    a = Acc()
    r = explore.bfs(ToyP(True), 4, a)
    shortest = min((len(c['hist']) + 1 for c, _ in a.violations), default=None)
    if shortest != 3:
        print('selftest: explorer did not find the seeded toy staleness at depth 3', shortest)
        ok = False
    try:
        import pycel, openpyxl, networkx   # noqa
        import os
        src = os.path.realpath(os.path.dirname(pycel.__file__))
        want = os.path.realpath(os.path.join(os.environ.get('VERIF_REPO', '/repo'), 'src', 'pycel'))
        if src != want:
            print('selftest: pycel resolves to', src, 'expected', want)
            ok = False
    except Exception as exc:
        print('selftest: import failure', exc)
        ok = False
    for name in ('sched', ):
        try:
            mod = __import__('mc.' + name, fromlist=['selftest'])
            if hasattr(mod, 'selftest') and not mod.selftest():
                print('selftest:', name, 'failed')
                ok = False
        except ImportError:
            pass
    print('selftest', 'ok' if ok else 'FAILED')
    return 0 if ok else 1
